#!/venv/bin/python
"""Single entry point: check.py <ID> [--tier quick|thorough] [--replay FILE]

exit 0: property held on everything explored (KNOWN-FINDING lines allowed)
exit 1: at least one unlisted violation (a line `VIOLATION property=<id> replay=<path>` per root cause)
exit 2: harness problem (never a verdict)
"""
import argparse
import os
import sys

sys.dont_write_bytecode = True
HERE = os.path.dirname(os.path.abspath(__file__))
sys.path.insert(0, HERE)


def main():
    ap = argparse.ArgumentParser()
    ap.add_argument("prop")
    ap.add_argument("--tier", default=os.environ.get("VERIF_TIER", "quick"), choices=["quick", "thorough"])
    ap.add_argument("--replay")
    ap.add_argument("--jobs", type=int, default=0)
    a = ap.parse_args()
    from vlib import runner
    runner.setup_environment()
    name = a.prop.lower()
    if not name.startswith("c"):
        name = "c" + name
    try:
        rc = runner.run_property(name, a.tier, a.replay, a.jobs or None)
    except runner.HarnessError as e:
        print("HARNESS-ERROR: %s" % e, file=sys.stderr)
        rc = 2
    except Exception:
        import traceback
        traceback.print_exc()
        rc = 2
    sys.exit(rc)


if __name__ == "__main__":
    main()

"""C03 — client/server split: search works from serialized key, token and index alone."""
import json

from hypothesis import strategies as st

from vlib import hyp
from vlib import schemes as S
from vlib import search_props as SP
from vlib.drbg import entropy
from vlib.runner import ShardResult, Violation
from vlib.search_common import Built, stage_violation

ID = "C03"
LEVEL = "exploration"
RULE = ("same (scheme, configuration, key, database) generator as C01 (configurations move every width-bearing field off its "
        "default: k != k' in CT14, l != l' != k and lambda != k in ANSS16, lambda in {16,24}, SSE-1 array sizes with 1- and 2-byte "
        "addresses, param_l in {8,16}); keywords present and absent. Three relations per case: (1) deserialize(serialize(x)) == x "
        "and re-serializes to the same bytes for key, token, EDB, result; (2) a 'server' built only from the JSON round-trip of the "
        "config through the by-name loader, EDB bytes and token bytes returns DB.get(w, empty) after result serialization; "
        "(2b) for every fifth case the same server runs in ANOTHER PROCESS (fresh interpreter, different hash seed, OS entropy); "
        "(2c) for 8 schemes (not SSE-2) a keyword contained in 2^16-1 / 2^16 / 2^16+1 documents goes through the same wire formats; "
        "(3b) an index built by that fresh instance with the reloaded key answers the original tokens; (3) a fresh scheme instance with the key reloaded from bytes regenerates byte-identical tokens. Non-trivial = config "
        "differs from the default in a width-bearing field, or some result is non-empty with >= 2 identifiers; distinct = distinct "
        "(scheme, config, sorted length profile, id layout).")
ASSUMPTIONS = ["token generation is deterministic in all nine schemes (read from the code)",
               "wire formats are pickle-based; robustness to hostile bytes is not claimed by the property and not tested"]

WIDTH_FIELDS = ["param_k", "param_k_prime", "param_l", "param_l_prime", "param_lambda", "prf_f_output_length", "param_s",
                "param_identifier_size", "param_B", "param_b", "param_B_prime", "param_b_prime", "param_max_file_size", "param_L"]


def roundtrip(cls, obj, cfgobj, what, scheme):
    try:
        raw = obj.serialize()
    except Exception as e:
        raise stage_violation(scheme, what + ".serialize", e)
    if not isinstance(raw, (bytes, bytearray)):
        raise Violation("%s: %s.serialize() returned %s" % (scheme, what, type(raw).__name__), "%s:%s:serialize_type" % (scheme, what))
    try:
        back = cls.deserialize(raw, cfgobj)
    except Exception as e:
        raise stage_violation(scheme, what + ".deserialize", e)
    if isinstance(back, Exception):
        raise Violation("%s: %s.deserialize returned an exception object %r" % (scheme, what, back), "%s:%s:deserialize_exc_obj" % (scheme, what))
    if not (back == obj):
        raise Violation("%s: deserialize(serialize(%s)) != original" % (scheme, what), "%s:%s:roundtrip_neq" % (scheme, what))
    try:
        raw2 = back.serialize()
    except Exception as e:
        raise stage_violation(scheme, what + ".serialize(after round trip)", e)
    # byte-identical re-serialization is NOT demanded (a pickled set may iterate in another order); the second
    # generation must still deserialize to an equal object
    if raw2 != raw:
        try:
            back2 = cls.deserialize(raw2, cfgobj)
        except Exception as e:
            raise stage_violation(scheme, what + ".deserialize(second generation)", e)
        if not (back2 == obj):
            raise Violation("%s: second-generation %s differs from the original" % (scheme, what), "%s:%s:reserialize" % (scheme, what))
    return raw, back


def run_case(case):
    scheme = case["scheme"]
    with entropy(case["seed"]):
        built = Built(case)
        loader, cfg, db, desc = built.loader, built.cfg, built.db, built.desc
        try:
            cfgobj = loader.SSEConfig(cfg)
        except Exception as e:
            raise stage_violation(scheme, "SSEConfig(cfg)", e)
        key_raw, _ = roundtrip(loader.SSEKey, built.key, cfgobj, "key", scheme)
        edb_raw, _ = roundtrip(loader.SSEEncryptedDatabase, built.edb, cfgobj, "edb", scheme)

        # the server side: only JSON config + bytes
        cfg2 = json.loads(json.dumps(cfg))
        import schemes as repo_schemes
        loader2 = repo_schemes.load_sse_module(scheme)
        try:
            server = loader2.SSEScheme(cfg2)
            server_cfgobj = loader2.SSEConfig(cfg2)
        except Exception as e:
            raise stage_violation(scheme, "server: SSEScheme/SSEConfig(json config)", e)
        try:
            server_edb = loader2.SSEEncryptedDatabase.deserialize(edb_raw, server_cfgobj)
        except Exception as e:
            raise stage_violation(scheme, "server: EDB.deserialize", e)

        # the re-started client: fresh scheme instance, key from bytes
        try:
            client2 = loader2.SSEScheme(json.loads(json.dumps(cfg)))
            client2_cfgobj = loader2.SSEConfig(json.loads(json.dumps(cfg)))
            key2 = loader2.SSEKey.deserialize(key_raw, client2_cfgobj)
        except Exception as e:
            raise stage_violation(scheme, "client reload: Key.deserialize", e)

        kws = list(db.keys())
        wire_tokens = []
        queries = [(w, "present") for w in kws[:6]]
        queries += [(w, "absent:" + tag) for w, tag in SP.absent_for(case, built)[:4]]
        for w, tag in queries:
            try:
                tok = built.scheme.TokenGen(built.key, w)
            except Exception as e:
                raise stage_violation(scheme, "TokenGen", e)
            tok_raw, _ = roundtrip(loader.SSEToken, tok, cfgobj, "token", scheme)
            try:
                tok2_raw = client2.TokenGen(key2, w).serialize()
            except Exception as e:
                raise stage_violation(scheme, "client reload: TokenGen", e)
            if tok2_raw != tok_raw:
                raise Violation("%s: token from the reloaded key differs from the original token (%s)" % (scheme, tag),
                                "%s:token_after_key_reload" % scheme)
            try:
                stok = loader2.SSEToken.deserialize(tok2_raw, server_cfgobj)
                sres = server.Search(server_edb, stok)
            except Exception as e:
                raise stage_violation(scheme, "server: Token.deserialize/Search (%s)" % tag.split(":")[0], e)
            res_raw, _ = roundtrip(loader2.SSEResult, sres, server_cfgobj, "result", scheme)
            try:
                final = loader.SSEResult.deserialize(res_raw, cfgobj).get_result_list()
            except Exception as e:
                raise stage_violation(scheme, "client: Result.deserialize", e)
            if not S.result_matches(desc, final, db, w):
                raise Violation("%s: server-side search through the wire formats returned %d ids for %s keyword %r, expected %d" % (
                    scheme, len(final), tag, w, len(db.get(w, []))), "%s:wire_result:%s" % (scheme, tag.split(":")[0]))
            # the local answer agrees with the wire answer
            local = built.scheme.Search(built.edb, tok).get_result_list()
            if local != final:
                raise Violation("%s: local and wire answers differ for %s keyword" % (scheme, tag), "%s:local_vs_wire" % scheme)
            wire_tokens.append((w, tag, tok_raw))
        if sum(len(v) for v in db.values()) <= 60:
            # the reloaded key is a full replacement of the original: an index built with it by the fresh scheme instance is
            # searchable with the ORIGINAL tokens (after their wire round trip)
            try:
                edb_b = client2.EDBSetup(key2, {w: list(v) for w, v in db.items()})
            except Exception as e:
                raise stage_violation(scheme, "client reload: EDBSetup with the reloaded key", e)
            for w, tag, tok_raw in wire_tokens[:4]:
                try:
                    got = client2.Search(edb_b, loader2.SSEToken.deserialize(tok_raw, client2_cfgobj)).get_result_list()
                except Exception as e:
                    raise stage_violation(scheme, "Search on the index built with the reloaded key (%s)" % tag.split(":")[0], e)
                if not S.result_matches(desc, got, db, w):
                    raise Violation("%s: an index built with the RELOADED key answers the original token of %s keyword %r with %d ids, "
                                    "expected %d" % (scheme, tag, w, len(got), len(db.get(w, []))), "%s:index_from_reloaded_key" % scheme)
        if case.get("process_boundary"):
            # the same split across a REAL process boundary: a fresh interpreter (own hash seed, own module state, OS entropy)
            # gets only the JSON config, the index bytes and the token bytes
            from vlib import fresh
            out = fresh.run_job({"kind": "server_search", "scheme": scheme, "cfg": cfg2, "edb_hex": edb_raw.hex(),
                                 "tokens": [t.hex() for _, _, t in wire_tokens]}, hashseed=1 + case["seed"] % 4000)
            if "error" in out:
                from vlib.runner import HarnessError
                raise HarnessError("server child failed: %s" % out["error"])
            if "exception" in out:
                raise Violation("%s: a server in another process fails on the serialized index/tokens: %s" % (scheme, out["exception"]),
                                "%s:other_process:exception" % scheme)
            for (w, tag, _), got in zip(wire_tokens, out["results"]):
                want = db.get(w, [])
                want_hex = sorted(x.hex() for x in want) if out["is_set"] else [x.hex() for x in want]
                if got != want_hex:
                    raise Violation("%s: a server in ANOTHER PROCESS returns %d ids for %s keyword %r, expected %d" % (
                        scheme, len(got), tag, w, len(want)), "%s:other_process:%s" % (scheme, tag.split(":")[0]))


def nontrivial(case):
    desc = S.DESCS[case["scheme"]]
    d = S.default_config(case["scheme"])
    cfg = S.public_cfg(case["cfg"])
    if any(cfg.get(f) != d.get(f) for f in WIDTH_FIELDS if f in d):
        return True
    return any(n >= 2 for n in case["db"]["lens"])


def classes_of(case):
    out = SP.classes_of(case)
    d = S.default_config(case["scheme"])
    cfg = S.public_cfg(case["cfg"])
    for f in WIDTH_FIELDS:
        if f in d and cfg.get(f) != d.get(f):
            out.append("width_off_default:" + f)
    if case["scheme"] == "ANSS16.Scheme3" and cfg["param_lambda"] != cfg["param_k"]:
        out.append("anss16:lambda!=k")
    if case["scheme"] == "CT14.Pi" and cfg["param_k"] != cfg["param_k_prime"]:
        out.append("ct14:k!=k'")
    return out


def body(case, res):
    case.setdefault("process_boundary", case["seed"] % 5 == 0)
    res.count(SP.fp_of(case), nontrivial(case), classes_of(case) + (["server_in_other_process"] if case["process_boundary"] else []),
              sample=SP.sample_of(case))
    run_case(case)


def shards(tier):
    out = [{"kind": "hyp", "scheme": s, "i": 0} for s in S.SCHEMES]
    out += [{"kind": "huge", "scheme": s} for s in SP.HUGE_SCHEMES]
    out += [{"kind": "content", "scheme": s} for s in S.SCHEMES]
    if tier == "thorough":
        out += [{"kind": "hyp", "scheme": s, "i": 1} for s in S.SCHEMES]
    return out


def run_shard(spec, seed, tier):
    res = ShardResult()
    if spec["kind"] == "content":
        # identifiers (24 and 32 bytes) whose content is structured - among them the library's own format magics - through every wire format
        first = {}
        scheme = spec["scheme"]
        for idsz, ids_seed in ((24, 8), (32, 10), (24, 12)):
            cfg = S.default_config(scheme)
            if "param_identifier_size" in cfg:
                cfg["param_identifier_size"] = idsz
            else:
                cfg["_id_size"] = idsz
            if scheme == "CGKO06.SSE1":
                cfg.update(param_s=64, param_dictionary_size=8)
            case = SP.explicit_case(scheme, cfg, [4, 3, 2], seed % 100000 + idsz, id_mode="special", id_seed=ids_seed)
            case["process_boundary"] = idsz == 32
            try:
                body(case, res)
            except Violation as v:
                first.setdefault(v.bucket, (case, str(v)))
        for bucket, (case, msg) in first.items():
            res.add_violation(case, msg, bucket)
        return res
    if spec["kind"] == "huge":
        # a posting list of 2**16 - 1 / 2**16 / 2**16 + 1 identifiers through every wire format
        first = {}
        for case in SP.huge_cases(spec["scheme"], tier, seed % 100000):
            case["process_boundary"] = False
            try:
                body(case, res)
            except Violation as v:
                first.setdefault(v.bucket, (case, str(v)))
        for bucket, (case, msg) in first.items():
            res.add_violation(case, msg, bucket)
        return res
    n = 160 if tier == "quick" else 1200
    if spec["scheme"] == "CGKO06.SSE2":
        n = n // 2
    hyp.search(res, S.st_scheme_case(spec["scheme"], max_total=120), body, seed, n)
    return res


def replay(case):
    try:
        run_case(case)
    except Violation as v:
        return str(v)
    return None

"""C09 — end to end: results delivered through client and server equal the local answer."""
import asyncio
import contextlib
import copy
import json

from hypothesis import strategies as st

from vlib import hyp
from vlib import schemes as S
from vlib.drbg import entropy
from vlib.runner import HarnessError, ShardResult, Violation

ID = "C09"
LEVEL = "exploration"
RULE = ("a case is (scheme, configuration, JSON database with UTF-8 keywords incl. non-ASCII and mixed-case hex identifiers, order "
        "of the two independent workflow prefixes, a 'discard the client object and rebuild it from disk' bit for every step "
        "boundary, a keyword sequence of present/absent/repeated keywords, an optional server restart after the upload or "
        "between two searches; one workflow with a keyword in 70 000 documents (index and result larger than one MiB on the wire); keyword pairs that are canonically equivalent Unicode (composed / decomposed), one stored and one absent; per search the way the answer is obtained: wait=True callback or a once-handler for RESULT messages followed by "
        "a non-blocking search; restarts are clean, hard (every server module back to its import-time state) or, for one case in eight, the "
        "server is a REAL PROCESS that is SIGKILLed right after the upload acknowledgement / between two searches while the client's "
        "connection is still open, and replaced by a new process on the same directory). The real client Service talks to the real server handler over a loopback websocket. Oracle: the "
        "bytes handed to the search callback deserialize (scheme's SSEResult) to DB.get(w, empty); hex/int views reproduce the "
        "JSON identifiers; every workflow step whose prerequisites hold completes. Non-trivial = at least one re-creation "
        "between steps or a restart, and at least one absent keyword; distinct = distinct (scheme, config, database, plan).")
ASSUMPTIONS = ["the server's 1 s cleanup pause is a gate owned by the driver: it elapses either before the re-created client connects or only after that client has completed its handshake (reconnect inside the pause)",
               "a clean 'server restart' in this check is: stop listening, drop all in-memory state (fresh ServicesManager), listen again; the killed-process variant loses everything the server process had not written",
               "silence for 30 s on a loopback connection that is still open is counted as inconclusive, not as a violation"]

PLANS = [
    ["genkey", "encrypt", "upload_config", "upload_edb"],
    ["upload_config", "genkey", "encrypt", "upload_edb"],
    ["genkey", "upload_config", "encrypt", "upload_edb"],
]


def json_to_db(jsondb):
    """the ORACLE's reading of the JSON database (independent of the library's converter): UTF-8 keywords, hex identifiers"""
    return {k.encode("utf-8"): [bytes.fromhex(h) for h in v] for k, v in jsondb}


def library_db(jsondb):
    """what the documented path hands to the client service: the library's own conversion of the JSON database"""
    from toolkit.database_utils import convert_database_keyword_to_bytes
    import json
    return convert_database_keyword_to_bytes(json.loads(json.dumps({k: v for k, v in jsondb})))


async def _race_closed(svc, coro, what, scheme):
    """await a client operation, but give up as soon as the server closes the connection (that is a definite 'no reply')"""
    task = asyncio.ensure_future(coro)
    t0 = asyncio.get_running_loop().time()
    while True:
        done, _ = await asyncio.wait([task], timeout=0.05)
        if task in done:
            return task.result()
        ws = svc.websocket
        if ws is not None and ws.closed:
            await asyncio.sleep(0.05)
            if not task.done():
                task.cancel()
                with contextlib.suppress(BaseException):
                    await task
                raise Violation("%s: the server closed the connection during %s although its prerequisites hold (close code %s)" % (
                    scheme, what, getattr(ws, "close_code", None)), "%s:%s:connection_closed" % (scheme, what))
        if asyncio.get_running_loop().time() - t0 > 30:
            task.cancel()
            with contextlib.suppress(BaseException):
                await task
            raise HarnessError("no reply to %s within 30 s on an open loopback connection (inconclusive)" % what)


async def workflow(case):
    from vlib import rig
    ns = rig.modules()
    rig.wipe()
    scheme = case["scheme"]
    desc = S.DESCS[scheme]
    Service = ns.client_service.Service
    db = json_to_db(case["jsondb"])
    cfg = copy.deepcopy(S.public_cfg(case["cfg"]))
    if scheme == "CGKO06.SSE2":
        cfg["param_n"] = S.distinct_ids(db)
    if scheme == "CGKO06.SSE1":
        cfg["param_dictionary_size"] = max(cfg["param_dictionary_size"], len(db))
    from vlib import sched
    gate = sched.Gate()
    rig.set_sleep(gate.sleep)  # the server's cleanup pause elapses when this driver says so
    proc_mode = case.get("server") == "process"
    srv = srvp = work = None
    if proc_mode:
        # the server is a REAL process (own interpreter, own hash seed) that is killed with SIGKILL -- while the client's
        # connection is still open and before any cleanup has run -- and replaced by a new process on the same directory
        import tempfile
        from props import c13 as P
        work = tempfile.mkdtemp(prefix="ssepy-c09srv-")
        srvp = P.start_server(ns.home, work, "srv0")
        ns.global_config.ClientConfig.SERVER_URI = srvp.uri
    else:
        srv = await rig.Server().start()
    svc = None
    kills = {"n": 0}

    async def kill_server():
        nonlocal srvp
        from props import c13 as P
        srvp.kill()
        kills["n"] += 1
        srvp = P.start_server(ns.home, work, "srv%d" % kills["n"])
        ns.global_config.ClientConfig.SERVER_URI = srvp.uri
    recreate = list(case["recreate"])
    early = list(case.get("early", []))
    pending = {"n": 0}

    async def settle():
        while pending["n"] > 0:
            for _ in range(600):
                if gate.pending:
                    break
                await asyncio.sleep(0.005)
            if not gate.release_one():
                pending["n"] = 0
                break
            pending["n"] -= 1
            await asyncio.sleep(0)

    async def close_current():
        nonlocal svc
        if svc is not None:
            had_conn = svc.websocket is not None
            try:
                await asyncio.wait_for(svc.close_service(), 30)
            except Exception:
                if not proc_mode:   # after a server kill the client's connection is dead: closing it may fail, nothing depends on it
                    raise
            if had_conn and not proc_mode:
                pending["n"] += 1
            svc = None

    async def fresh(force=False):
        nonlocal svc
        flag = recreate.pop(0) if recreate else True
        in_pause = early.pop(0) if early else False
        if svc is None or flag or force:
            await close_current()
            if in_pause and pending["n"] and not force:
                # the re-created client connects while the server is still inside the cleanup pause of the previous connection
                svc = Service(sid)
                try:
                    await asyncio.wait_for(svc.load_websocket(), 30)
                except Exception as e:
                    raise Violation("%s: a client re-created right after close_service cannot connect (within the server's cleanup "
                                    "pause): %s: %s" % (scheme, type(e).__name__, e), "%s:reconnect_in_pause:%s" % (scheme, type(e).__name__))
                await settle()
            else:
                await settle()
                svc = Service(sid)
        return svc

    try:
        try:
            svc = Service()
            sid = svc.handle_create_config(cfg)
        except Exception as e:
            raise Violation("%s: create-service failed on a valid configuration: %s: %s" % (scheme, type(e).__name__, e),
                            "%s:create:%s" % (scheme, type(e).__name__))
        for step in case["plan"]:
            s = await fresh()
            try:
                if step == "genkey":
                    s.handle_create_key()
                elif step == "encrypt":
                    s.handle_encrypt_database(library_db(case["jsondb"]))
                elif step == "upload_config":
                    await _race_closed(s, s.handle_upload_config(wait=True, wait_callback_func=lambda f: None), "upload_config", scheme)
                elif step == "upload_edb":
                    await _race_closed(s, s.handle_upload_encrypted_database(wait=True, wait_callback_func=lambda f: None), "upload_edb", scheme)
            except (Violation, HarnessError):
                raise
            except Exception as e:
                raise Violation("%s: workflow step %s failed although its prerequisites hold: %s: %s" % (scheme, step, type(e).__name__, e),
                                "%s:%s:%s" % (scheme, step, type(e).__name__))
            if proc_mode and step == "upload_edb" and case.get("kill_after") == "upload_edb":
                await kill_server()   # right after the upload was acknowledged, the uploading connection still open
                recreate[:1] = [True]
        restarts = 0
        for qi, (w_str, kind) in enumerate(case["queries"]):
            force = False
            if case.get("restart_at") is not None and qi == case["restart_at"]:
                if proc_mode:
                    await kill_server()   # whatever connection the client holds is still open at this moment
                else:
                    await close_current()
                    await settle()
                    await srv.restart(hard=bool(case.get("hard_restart")))
                restarts += 1
                force = True
            s = await fresh(force)
            w = w_str.encode("utf-8")
            got = []
            style = (case.get("styles") or ["wait"])[qi % len(case.get("styles") or ["wait"])]
            try:
                if style == "echo":
                    # the other documented way of getting the answer: a once-handler for RESULT messages, then a non-blocking search
                    from frontend.common.constants import MsgType
                    s.register_echo_handler_once(MsgType.RESULT, lambda content: got.append(content))
                    await s.handle_keyword_search(w, wait=False)
                    t0 = asyncio.get_running_loop().time()
                    while not got:
                        await asyncio.sleep(0.002)
                        if s.websocket is not None and s.websocket.closed:
                            raise Violation("%s: the server closed the connection during a search (close code %s)" % (
                                scheme, getattr(s.websocket, "close_code", None)), "%s:search:connection_closed" % scheme)
                        if asyncio.get_running_loop().time() - t0 > 30:
                            raise HarnessError("no result within 30 s on an open loopback connection (inconclusive)")
                    await asyncio.sleep(0.01)   # a second delivery to the same once-handler would show up here
                else:
                    await _race_closed(s, s.handle_keyword_search(w, wait=True, wait_callback_func=lambda f: got.append(f.result())),
                                       "search", scheme)
            except (Violation, HarnessError):
                raise
            except Exception as e:
                raise Violation("%s: search #%d (%s keyword) failed: %s: %s" % (scheme, qi, kind, type(e).__name__, e),
                                "%s:search:%s" % (scheme, type(e).__name__))
            if len(got) != 1:
                raise Violation("%s: search #%d delivered %d results to the callback" % (scheme, qi, len(got)), "%s:search:callback_count" % scheme)
            try:
                res = s.sse_module_loader.SSEResult.deserialize(got[0], s.config_object).get_result_list()
            except Exception as e:
                raise Violation("%s: delivered result bytes do not deserialize: %s" % (scheme, e), "%s:search:bad_result_bytes" % scheme)
            if not S.result_matches(desc, res, db, w):
                raise Violation("%s: search #%d for %s keyword %r delivered %d ids, expected %d (plan %r, restart_at %r)" % (
                    scheme, qi, kind, w_str, len(res), len(db.get(w, [])), case["plan"], case.get("restart_at")),
                    "%s:wrong_delivered_result:%s" % (scheme, kind))
            from toolkit.bytes_utils import BytesConverter
            want_hex = [h.lower() for h in dict((k, v) for k, v in case["jsondb"]).get(w_str, [])]
            got_hex = [BytesConverter.convert_bytes(x, "hex") for x in res]
            if sorted(got_hex) != sorted(want_hex) or (not desc.result_is_set and got_hex != want_hex):
                raise Violation("%s: hex view of the delivered result differs from the JSON identifiers" % scheme, "%s:hex_view" % scheme)
            if sorted(BytesConverter.convert_bytes(x, "int") for x in res) != sorted(int(h, 16) for h in want_hex):
                raise Violation("%s: int view of the delivered result differs from the JSON identifiers" % scheme, "%s:int_view" % scheme)
        return restarts
    finally:
        with contextlib.suppress(Exception):
            if svc is not None:
                await svc.close_service()
        stopping = {"done": False}

        async def auto_release():
            while not stopping["done"]:
                gate.release_one()
                await asyncio.sleep(0.005)
        rel = asyncio.ensure_future(auto_release())
        try:
            if srv is not None:
                await asyncio.wait_for(srv.stop(), 30)
            if srvp is not None:
                srvp.kill()
                import shutil
                from props import c13 as P
                t_other = P.other_device_tmp(work, create=False)
                shutil.rmtree(work, ignore_errors=True)
                if t_other:
                    shutil.rmtree(t_other, ignore_errors=True)
        finally:
            stopping["done"] = True
            with contextlib.suppress(BaseException):
                await rel
            rig.set_sleep(rig._fast_sleep)


async def cli_workflow(case):
    """the same workflow driven through frontend.client.commands (what run_client.py calls), results read from stdout"""
    import ast
    import io
    import os
    import tempfile
    from vlib import rig
    ns = rig.modules()
    rig.wipe()
    import frontend.client.commands as commands
    scheme = case["scheme"]
    desc = S.DESCS[scheme]
    db = json_to_db(case["jsondb"])
    cfg = copy.deepcopy(S.public_cfg(case["cfg"]))
    if scheme == "CGKO06.SSE2":
        cfg["param_n"] = S.distinct_ids(db)
    if scheme == "CGKO06.SSE1":
        cfg["param_dictionary_size"] = max(cfg["param_dictionary_size"], len(db))
    srv = await rig.Server().start()
    tmp = tempfile.mkdtemp(prefix="ssepy-c09cli-")
    try:
        cfg_path, db_path = os.path.join(tmp, "config.json"), os.path.join(tmp, "db.json")
        with open(cfg_path, "w") as f:
            json.dump(cfg, f)
        with open(db_path, "w", encoding="utf-8") as f:
            json.dump({k: v for k, v in case["jsondb"]}, f, ensure_ascii=False)
        sname = "svc"

        async def call(fn, *a, **kw):
            buf = io.StringIO()
            with contextlib.redirect_stdout(buf):
                r = fn(*a, **kw)
                if asyncio.iscoroutine(r):
                    await asyncio.wait_for(r, 60)
            return buf.getvalue()

        steps = [("create-service", commands.create_service, (cfg_path, sname), {}, "successfully")]
        for step in case["plan"]:
            steps.append({"genkey": ("generate-key", commands.generate_key, (), {"sname": sname}, "successfully"),
                          "encrypt": ("encrypt-database", commands.encrypt_database, (db_path,), {"sname": sname}, "successfully"),
                          "upload_config": ("upload-config", commands.upload_config, (), {"sname": sname}, "successfully"),
                          "upload_edb": ("upload-encrypted-database", commands.upload_encrypted_database, (), {"sname": sname}, "successfully")}[step])
        for name, fn, a, kw, marker in steps:
            out = await call(fn, *a, **kw)
            if marker not in out or "error" in out.lower():
                raise Violation("%s: CLI command %s did not succeed: %r" % (scheme, name, out.strip()[-300:]), "%s:cli:%s" % (scheme, name))
        for qi, (w_str, kind) in enumerate(case["queries"]):
            if case.get("restart_at") is not None and qi == case["restart_at"]:
                await srv.restart()
            out = await call(commands.search, w_str, "hex", sname=sname)
            line = next((l for l in out.splitlines() if "The result is" in l), None)
            if line is None:
                raise Violation("%s: CLI search for %s keyword %r printed no result: %r" % (scheme, kind, w_str, out.strip()[-300:]),
                                "%s:cli:search_no_result" % scheme)
            got = ast.literal_eval(line.split("The result is", 1)[1].strip().rstrip("."))
            want = [h.lower() for h in dict((k, v) for k, v in case["jsondb"]).get(w_str, [])]
            if (sorted(got) != sorted(want)) if desc.result_is_set else (got != want):
                raise Violation("%s: CLI search for %s keyword %r printed %r, expected %r" % (scheme, kind, w_str, got, want),
                                "%s:cli:wrong_result:%s" % (scheme, kind))
        return 0
    finally:
        await srv.stop()
        import shutil
        shutil.rmtree(tmp, ignore_errors=True)


def run_case(case):
    from vlib import rig
    rig.modules()
    with entropy(case["seed"]):
        if case.get("mode") == "cli":
            return rig.run(cli_workflow(case))
        return rig.run(workflow(case))


# ---------------------------------------------------------------------------------------------------------
KW_ALPHABET = "abcXYZ019 _-äßçλжשあ漢🙂"


@st.composite
def st_cli_case(draw, scheme):
    c = draw(st_case(scheme))
    c["mode"] = "cli"
    return c


@st.composite
def st_case(draw, scheme):
    desc = S.DESCS[scheme]
    cfg = desc.st_config(draw)
    if scheme == "CGKO06.SSE1" and cfg["param_s"] > 1024:
        cfg["param_s"] = 256
        cfg["param_dictionary_size"] = 64
    idsz = desc.id_size(cfg)
    limit = desc.kw_limit(cfg)
    nkw = draw(st.integers(1, 5))
    kws = []
    tries = 0
    while len(kws) < nkw and tries < 50:
        tries += 1
        k = draw(st.text(alphabet=KW_ALPHABET, min_size=1, max_size=8))
        b = k.encode("utf-8")
        if len(b) <= limit and b[0] != 0 and k not in kws:
            kws.append(k)
    if not kws:
        kws = ["a"]
    equiv = None
    if draw(st.integers(0, 4)) == 0:
        # two different keywords that are canonically equivalent Unicode (composed / decomposed): different byte strings, so
        # different keywords; one of them is stored, the other one is (usually) asked for as an absent keyword
        pair = draw(st.sampled_from([("caf\u00e9", "cafe\u0301"), ("\u00e5", "a\u030a"), ("\u212b", "\u00c5"), ("\ufb01", "fi"), ("\u00f1o", "n\u0303o")]))
        if all(len(p.encode("utf-8")) <= limit for p in pair):
            equiv = pair
            for p in (pair if draw(st.booleans()) else pair[:1]):
                if p not in kws:
                    kws.append(p)
    cap_total = min(desc.max_total(cfg), 40)
    lens = []
    for _ in kws:
        n = draw(st.sampled_from([1, 1, 2, 3, 5, 8, 9]))
        lens.append(n)
    M = 256 ** idsz - 1
    while sum(lens) > min(cap_total, M):
        i = lens.index(max(lens))
        if lens[i] > 1:
            lens[i] -= 1
        else:
            lens.pop()
            kws.pop()
    if isinstance(desc, S.Pi2Lev) and not desc.lens_ok(cfg, lens):
        lens = [1] * len(lens)
    jsondb = []
    ctr = draw(st.integers(1, 200))
    for k, n in zip(kws, lens):
        ids = []
        for _ in range(n):
            v = (ctr % M) + 1
            ctr += 1
            h = v.to_bytes(idsz, "big").hex()
            ids.append(h.upper() if (ctr % 3 == 0) else h)
        jsondb.append([k, ids])
    plan = draw(st.sampled_from(PLANS))
    nq = draw(st.integers(1, 5))
    queries = []
    if equiv:
        for p in equiv:
            queries.append([p, "present" if p in kws else "absent"])
    for _ in range(nq):
        if draw(st.integers(0, 2)) == 0:
            a = draw(st.sampled_from([kws[0] + "x", kws[0][:-1] or "zz", "absent", kws[0].swapcase(), "ä"]))
            if a not in kws and len(a.encode("utf-8")) <= limit and a:
                queries.append([a, "absent"])
                continue
        queries.append([draw(st.sampled_from(kws)), "present"])
    if draw(st.integers(0, 3)) == 0 and queries:
        queries.append(list(queries[0]))
    recreate = draw(st.lists(st.booleans(), min_size=len(plan) + len(queries), max_size=len(plan) + len(queries)))
    early = draw(st.lists(st.booleans(), min_size=len(recreate), max_size=len(recreate)))
    restart_at = draw(st.one_of(st.none(), st.integers(0, len(queries) - 1)))
    case = {"scheme": scheme, "cfg": cfg, "jsondb": jsondb, "plan": plan, "queries": queries, "recreate": recreate, "early": early,
            "restart_at": restart_at, "seed": draw(st.integers(0, 2 ** 32)),
            "styles": draw(st.lists(st.sampled_from(["wait", "wait", "echo"]), min_size=1, max_size=5)),
            "hard_restart": draw(st.booleans())}
    if draw(st.integers(0, 7)) == 0:
        case["server"] = "process"
        case["kill_after"] = draw(st.sampled_from(["upload_edb", None]))
        if case["kill_after"] is None and restart_at is None:
            case["restart_at"] = 0
    return case


def body(case, res):
    rec = case["recreate"]
    reuse = any(not r for r in rec[1:])
    nt = (any(rec[1:]) or case["restart_at"] is not None) and any(k == "absent" for _, k in case["queries"])
    cl = ["scheme:" + case["scheme"], "driver:" + case.get("mode", "service_api"), "plan:" + ",".join(p[0] + p[-1] for p in case["plan"]),
          "restart" if case["restart_at"] is not None else "no_restart", "object_reused_somewhere" if reuse else "always_recreated"]
    if any(k == "absent" for _, k in case["queries"]):
        cl.append("has_absent_query")
    if any(r and e for r, e in zip(case["recreate"][1:], case.get("early", [])[1:])):
        cl.append("reconnect_inside_cleanup_pause")
    if any(any(ord(ch) > 127 for ch in k) for k, _ in case["jsondb"]):
        cl.append("non_ascii_keyword")
    if case.get("server") == "process":
        cl.append("server_process_killed:" + ("right_after_upload_echo" if case.get("kill_after") else "between_searches"))
    sty = case.get("styles") or ["wait"]
    used = {sty[i % len(sty)] for i in range(len(case["queries"]))}
    if case.get("mode") != "cli":
        cl.append("result_delivery:" + "+".join(sorted(used)))
    res.count([case["scheme"], case.get("mode"), sorted((k, repr(v)) for k, v in case["cfg"].items()), case["jsondb"], case["plan"], case["queries"],
               case["recreate"], case["restart_at"], case.get("styles"), case.get("server"), case.get("kill_after")], nt, cl,
              sample={k: case[k] for k in ("scheme", "jsondb", "plan", "queries", "recreate", "restart_at")})
    run_case(case)


def shards(tier):
    out = [{"kind": "hyp", "scheme": s, "i": 0} for s in S.SCHEMES]
    if tier == "thorough":
        out += [{"kind": "hyp", "scheme": s, "i": 1} for s in S.SCHEMES]
    out.append({"kind": "large", "scheme": "CJJ14.PiPack"})
    return out


def large_case(seed):
    """one keyword in 70 000 documents with 16-byte identifiers: the index upload and the result each exceed one MiB on the wire"""
    cfg = S.default_config("CJJ14.PiPack")
    cfg["param_identifier_size"] = 16
    ids = [(i + 1).to_bytes(16, "big").hex() for i in range(70000)]
    return {"scheme": "CJJ14.PiPack", "cfg": cfg, "jsondb": [["the", ids], ["rare", [(10 ** 9).to_bytes(16, "big").hex()]]],
            "plan": ["genkey", "encrypt", "upload_config", "upload_edb"], "queries": [["the", "present"], ["rare", "present"], ["none", "absent"], ["the", "present"]],
            "recreate": [True, False, True, False, True, False, False, True], "early": [False] * 8, "restart_at": 2, "seed": seed, "styles": ["wait", "echo"],
            "hard_restart": False}


def run_shard(spec, seed, tier):
    res = ShardResult()
    if spec.get("kind") == "large":
        case = large_case(seed % 100000)
        res.count(["large", case["seed"]], True, ["scheme:CJJ14.PiPack", "result_and_index_larger_than_one_MiB"],
                  sample={"scheme": "CJJ14.PiPack", "database": "keyword 'the' in 70000 documents (16-byte ids), 'rare' in one", "queries": case["queries"]})
        try:
            run_case(case)
        except Violation as v:
            small = dict(case)
            res.add_violation(small, str(v), v.bucket)
        return res
    n = 60 if tier == "quick" else 500
    hyp.search(res, st_case(spec["scheme"]), body, seed, n)
    # the same workflows through frontend.client.commands (the functions behind run_client.py), results parsed from stdout
    hyp.search(res, st_cli_case(spec["scheme"]), body, seed + 1, 6 if tier == "quick" else 40)
    return res


def replay(case):
    try:
        run_case(case)
    except Violation as v:
        return str(v)
    return None

"""C15 — PRPs are length-preserving bijections with inverses (FFX, bit PRP, byte Luby-Rackoff PRPs)."""
import hashlib
import hmac as _hmac

from hypothesis import strategies as st

from vlib import hyp, simple
from vlib.runner import ShardResult, Violation

ID = "C15"
LEVEL = "exploration"
RULE = ("(1) for each sampled key, every n in 2..12 and every x in {0,1}^n: image of encrypt is all of {0,1}^n with len == n, "
        "decrypt(encrypt(x)) == x and encrypt(decrypt(x)) == x (exhaustive per key); the same through BitwiseFPEPRP.__call__; "
        "(2) Hypothesis: random n up to 2100 bits biased to odd n and 159/160/161/319/320/321, random x and keys of 0..64 bytes; in (1) and (2) the n-bit input is obtained in one of eight ways library code obtains Bitsets "
        "(constructor, padding through the public length attribute, the padded left half from half_bits, concatenation, lower/higher "
        "bits of a longer string, copy, from bytes) and must encrypt like the constructor-built equal string; "
        "(3) byte PRPs: message lengths 2..64 (even), key lengths 3*{1..32}, sha1/sha256/md5, compared with an independent "
        "3-round Feistel over an independent P_hash and inverted by the harness's inverse network; all 65536 two-byte messages "
        "exhaustively for sampled keys; wrong lengths raise ValueError. Non-trivial = n >= 13 or odd n (FFX), or a byte-PRP "
        "case; each exhaustive (key, n) sweep counts as one case; distinct = distinct case.")
ASSUMPTIONS = ["hmac/hashlib of the standard library are trusted for the independent Feistel reference",
               "n = 1 is excluded by the property"]


def B(h):
    return bytes.fromhex(h)


# ---- independent reference for the byte PRPs ----------------------------------------------------------
def ref_p_hash(key, msg, n, digest):
    out = b""
    a = msg
    while len(out) < n:
        a = _hmac.new(key, a, digest).digest()
        out += _hmac.new(key, a + msg, digest).digest()
    return out[:n]


def ref_feistel(key, msg, digest):
    h = len(msg) // 2
    kl = len(key) // 3
    ks = [key[0:kl], key[kl:2 * kl], key[2 * kl:3 * kl]]
    L, R = msg[:h], msg[h:]
    for i in range(3):
        f = ref_p_hash(ks[i], R, h, digest)
        L, R = R, bytes(x ^ y for x, y in zip(L, f))
    return L + R


def ref_feistel_inv(key, ct, digest):
    h = len(ct) // 2
    kl = len(key) // 3
    ks = [key[0:kl], key[kl:2 * kl], key[2 * kl:3 * kl]]
    L, R = ct[:h], ct[h:]
    for i in (2, 1, 0):
        # forward: (L', R') = (R, L ^ F(R))  =>  R = L', L = R' ^ F(L')
        f = ref_p_hash(ks[i], L, h, digest)
        L, R = bytes(x ^ y for x, y in zip(R, f)), L
    return L + R


def expect_value_error(fn, what):
    try:
        fn()
    except ValueError:
        return
    except Exception as e:
        raise Violation("%s: raised %s (%s) instead of ValueError" % (what, type(e).__name__, e), what + ":wrongexc")
    raise Violation("%s: accepted" % what, what + ":accepted")


def _chk(bs, n, what):
    from toolkit.bits import Bitset
    if not isinstance(bs, Bitset):
        raise Violation("%s returned %s" % (what, type(bs).__name__), what + ":type")
    if len(bs) != n:
        raise Violation("%s: output length %d for n=%d" % (what, len(bs), n), what + ":length")
    if not 0 <= int(bs) < (1 << n):
        raise Violation("%s: output value out of range for n=%d" % (what, n), what + ":range")


ROUTES = ["ctor", "length_assign", "half_bits_left", "concat", "lower_bits", "higher_bits", "copy_ctor", "bytes_ctor"]


def make_bits(x, n, route):
    """the n-bit string x as a Bitset obtained the way library code obtains them: by the constructor, by padding through the
    public `length` attribute (the idiom of toolkit.bits_utils.half_bits), as a half of a longer string, by concatenation,
    by slicing.  Falls back to the constructor where a route cannot produce (x, n); returns (bitset, route actually used)."""
    from toolkit.bits import Bitset
    from toolkit import bits_utils
    b = None
    try:
        if route == "length_assign" and x < (1 << (n - 1)):
            b = Bitset(x, max(1, x.bit_length()))
            b.length = n
        elif route == "half_bits_left" and x < (1 << (n - 1)):
            # an odd-length (2n-1) string whose upper n-1 bits are x: half_bits pads the left half to n bits
            b = bits_utils.half_bits(Bitset((x << n) | (x ^ 1) % (1 << n), 2 * n - 1))[0]
        elif route == "concat" and n >= 2:
            lo = n // 2
            b = Bitset(x >> lo, n - lo) + Bitset(x & ((1 << lo) - 1), lo)
        elif route == "lower_bits":
            b = Bitset((0b101 << n) | x, n + 3).get_lower_bits(n)
        elif route == "higher_bits":
            b = Bitset((x << 3) | 0b011, n + 3).get_higher_bits(n)
        elif route == "copy_ctor":
            b = Bitset(Bitset(x, n), n)
        elif route == "bytes_ctor":
            b = Bitset(x.to_bytes((n + 7) // 8, "big"), n)
    except Exception:
        b = None
    if b is None or not isinstance(b, Bitset) or len(b) != n or int(b) != x or not (b == Bitset(x, n)):
        return Bitset(x, n), "ctor"   # whether the routes themselves work is C18's subject
    return b, route


_SHARED_FFX = {}


def run_case(case):
    from toolkit.bits import Bitset
    from toolkit.symmetric_encryption.fpe import BitwiseFFX
    from toolkit.prp import get_prp_implementation
    kind = case["kind"]
    try:
        if kind == "ffx_exhaustive":
            key, n = B(case["key"]), case["n"]
            # ONE cipher object per key serves every bit length n = 2..12 in turn (the cases of a key run in one process, in order);
            # a second, fresh object must agree with it
            ffx = _SHARED_FFX.setdefault(case["key"], BitwiseFFX())
            other = BitwiseFFX()
            prp = get_prp_implementation(case.get("alias", "BitwiseFPEPRP"))(message_bit_length=n, key_bit_length=len(key) * 8)
            kb = Bitset(key, len(key) * 8)
            seen = set()
            for x in range(1 << n):
                v, used = make_bits(x, n, ROUTES[(x + n) % len(ROUTES)])
                e = ffx.encrypt(key, v)
                _chk(e, n, "ffx.encrypt")
                seen.add(int(e))
                d = ffx.decrypt(key, e)
                _chk(d, n, "ffx.decrypt")
                if int(d) != x:
                    raise Violation("decrypt(encrypt(%d)) = %d (n=%d)" % (x, int(d), n), "ffx:inverse")
                if x % 7 == 0 or x == (1 << n) - 1:
                    if int(other.encrypt(key, Bitset(x, n))) != int(e) or int(other.decrypt(key, Bitset(int(e), n))) != x:
                        raise Violation("a cipher object that has served other bit lengths under this key and a fresh object disagree "
                                        "on x=%d, n=%d" % (x, n), "ffx:objects_disagree")
                d2 = ffx.decrypt(key, v)
                _chk(d2, n, "ffx.decrypt")
                if int(ffx.encrypt(key, d2)) != x:
                    raise Violation("encrypt(decrypt(%d)) != %d (n=%d)" % (x, x, n), "ffx:inverse2")
                if len(key) > 0:
                    p = prp(kb, make_bits(x, n, ROUTES[(x + n + 1) % len(ROUTES)])[0])
                    _chk(p, n, "BitwiseFPEPRP")
                    if int(p) != int(e):
                        raise Violation("BitwiseFPEPRP(k, x) differs from BitwiseFFX.encrypt(k, x)", "fpeprp:differs")
            if len(seen) != (1 << n):
                raise Violation("image of {0,1}^%d has %d elements (not a bijection)" % (n, len(seen)), "ffx:bijection")
        elif kind == "ffx_random":
            key, n, x = B(case["key"]), case["n"], case["x"] % (1 << case["n"])
            ffx = BitwiseFFX()
            v, used = make_bits(x, n, case.get("route", "ctor"))
            e = ffx.encrypt(key, v)
            _chk(e, n, "ffx.encrypt")
            if used != "ctor" and int(ffx.encrypt(key, Bitset(x, n))) != int(e):
                raise Violation("the same %d-bit string encrypts differently depending on how the Bitset was obtained (%s vs constructor)"
                                % (n, used), "ffx:route_dependent")
            d = ffx.decrypt(key, e)
            _chk(d, n, "ffx.decrypt")
            if int(d) != x:
                raise Violation("decrypt(encrypt(x)) != x (n=%d)" % n, "ffx:inverse")
            d2 = ffx.decrypt(key, v)
            _chk(d2, n, "ffx.decrypt")
            if int(ffx.encrypt(key, d2)) != x:
                raise Violation("encrypt(decrypt(x)) != x (n=%d)" % n, "ffx:inverse2")
            if int(ffx.encrypt(key, make_bits(x, n, case.get("route", "ctor"))[0])) != int(e):
                raise Violation("encrypt is not deterministic", "ffx:determinism")
            # a PRP object used repeatedly with ONE message object whose bits the caller changes in place between the calls
            # (Bitset is mutable: item assignment is part of its interface): each call sees the current bits
            if len(key) > 0:
                prp1 = get_prp_implementation("BitwiseFPEPRP")(message_bit_length=n, key_bit_length=len(key) * 8)
                kb1 = Bitset(key, len(key) * 8)
                mobj = Bitset(x, n)
                first = prp1(kb1, mobj)
                if int(first) != int(e):
                    raise Violation("BitwiseFPEPRP(k, x) differs from BitwiseFFX.encrypt(k, x)", "fpeprp:differs")
                pos = case["y"] % n
                mobj[pos] = not mobj[pos]
                x2 = x ^ (1 << (n - 1 - pos))
                if int(mobj) == x2:   # (whether item assignment itself works is C18's subject)
                    second = prp1(kb1, mobj)
                    if int(second) != int(ffx.encrypt(key, Bitset(x2, n))):
                        raise Violation("a PRP object called again with the same message object after one of its bits was changed in place "
                                        "returns %s the image of the changed string (n=%d)" % (
                                            "the OLD image instead of" if int(second) == int(first) else "something else than", n), "fpeprp:stale_after_in_place_change")
                    if int(prp1(kb1, Bitset(x, n))) != int(e):
                        raise Violation("the image of x changed after an unrelated call", "fpeprp:unstable")
            y = case["y"] % (1 << n)
            if y != x and int(ffx.encrypt(key, Bitset(y, n))) == int(e):
                raise Violation("two different %d-bit inputs encrypt to the same output" % n, "ffx:collision")
        elif kind == "fpeprp_bitkey":
            # the bit-oriented PRP with a key length that is not a whole number of bytes: every kbits-bit key is a key
            n, kbits = case["n"], case["kbits"]
            prp = get_prp_implementation("BitwiseFPEPRP")(message_bit_length=n, key_bit_length=kbits)
            ffx = BitwiseFFX()
            seen = {}
            for kv in case["keys"]:
                kb = Bitset(kv % (1 << kbits), kbits)
                for x in case["xs"]:
                    x %= (1 << n)
                    out = prp(kb, Bitset(x, n))
                    _chk(out, n, "BitwiseFPEPRP")
                    if int(out) != int(ffx.encrypt(bytes(kb), Bitset(x, n))):
                        raise Violation("BitwiseFPEPRP with a %d-bit key differs from BitwiseFFX.encrypt under the key's bytes" % kbits, "fpeprp:bitkey_differs")
                    if seen.setdefault((kv % (1 << kbits), int(out)), x) != x:
                        raise Violation("two %d-bit inputs map to the same output under one %d-bit key" % (n, kbits), "fpeprp:bitkey_collision")
        elif kind == "fpeprp_contract":
            n, kbits = case["n"], case["kbits"]
            prp = get_prp_implementation("bitwise_fpe_prp")(message_bit_length=n, key_bit_length=kbits)
            goodk = Bitset(1, kbits)
            expect_value_error(lambda: prp(goodk, Bitset(1, case["bad_n"])), "BitwiseFPEPRP(message of wrong bit length)")
            expect_value_error(lambda: prp(Bitset(1, case["bad_kbits"]), Bitset(1, n)), "BitwiseFPEPRP(key of wrong bit length)")
            out = prp(goodk, Bitset(1, n))
            _chk(out, n, "BitwiseFPEPRP")
        elif kind == "lr":
            key, msg, digest = B(case["key"]), B(case["m"]), case["digest"]
            prp = get_prp_implementation(case["alias"])(message_length=len(msg), key_length=len(key), hash_func_name=digest)
            out = prp(key, msg)
            if not isinstance(out, bytes) or len(out) != len(msg):
                raise Violation("byte PRP output length %r for %d-byte message" % (len(out), len(msg)), "lr:length")
            want = ref_feistel(key, msg, digest)
            if out != want:
                raise Violation("HmacLubyRackoffPRP differs from the independent 3-round Feistel", "lr:reference")
            if ref_feistel_inv(key, out, digest) != msg:
                raise Violation("harness inverse network does not invert the PRP", "lr:inverse")
            if prp(key, msg) != out:
                raise Violation("byte PRP is not deterministic", "lr:determinism")
            m2 = B(case["m2"])
            if m2 != msg and len(m2) == len(msg) and prp(key, m2) == out:
                raise Violation("two different messages map to the same output", "lr:collision")
            # the generic construction over an explicit PRF must agree
            from toolkit.prp.luby_rackoff_prp import LubyRackoffPRP
            from toolkit.prf import get_prf_implementation
            prf = get_prf_implementation("HmacPRF")(output_length=len(msg) // 2, message_length=len(msg) // 2,
                                                    key_length=len(key) // 3, hash_func_name=digest)
            if LubyRackoffPRP(message_length=len(msg), key_length=len(key), underlying_prf=prf)(key, msg) != out:
                raise Violation("LubyRackoffPRP over HmacPRF differs from HmacLubyRackoffPRP", "lr:generic")
        elif kind == "lr_exhaustive2":
            key, digest = B(case["key"]), case["digest"]
            prp = get_prp_implementation("HmacLubyRackoffPRP")(message_length=2, key_length=len(key), hash_func_name=digest)
            seen = set()
            for x in range(65536):
                m = x.to_bytes(2, "big")
                o = prp(key, m)
                if len(o) != 2:
                    raise Violation("2-byte message maps to %d bytes" % len(o), "lr:length")
                seen.add(o)
                if x % 97 == 0 and ref_feistel_inv(key, o, digest) != m:
                    raise Violation("inverse network fails on %r" % m, "lr:inverse")
            if len(seen) != 65536:
                raise Violation("image of all 2-byte messages has %d elements" % len(seen), "lr:bijection")
        elif kind == "lr_contract":
            alias = case["alias"]
            cls = get_prp_implementation(alias)
            if case["what"] == "odd_msg":
                expect_value_error(lambda: cls(message_length=case["mlen"], key_length=case["klen"]), "PRP(odd message length)")
            elif case["what"] == "key_not_div3":
                expect_value_error(lambda: cls(message_length=case["mlen"], key_length=case["klen"]), "PRP(key length % 3 != 0)")
            elif case["what"] == "wrong_key":
                prp = cls(message_length=case["mlen"], key_length=case["klen"])
                expect_value_error(lambda: prp(b"\x01" * case["bad"], b"\x02" * case["mlen"]), "PRP(key of wrong length)")
            elif case["what"] == "wrong_msg":
                prp = cls(message_length=case["mlen"], key_length=case["klen"])
                expect_value_error(lambda: prp(b"\x01" * case["klen"], b"\x02" * case["bad"]), "PRP(message of wrong length)")
            elif case["what"] == "unknown":
                expect_value_error(lambda: get_prp_implementation(case["name"]), "get_prp_implementation(unknown)")
        else:
            raise ValueError(kind)
    except Violation:
        raise
    except Exception as e:
        raise Violation("%s raised %s: %s" % (kind, type(e).__name__, e), "%s:exc:%s" % (kind, type(e).__name__))


LR_ALIASES = ["HmacLubyRackoffPRP", "hmac-luby-rackoff-prp", "hmac_luby_rackoff_prp"]


@st.composite
def st_case(draw):
    kind = draw(st.sampled_from(["ffx_random"] * 5 + ["lr"] * 4 + ["fpeprp_contract", "lr_contract", "fpeprp_bitkey"]))
    c = {"kind": kind}
    if kind == "ffx_random":
        n = draw(st.one_of(st.integers(2, 64), st.integers(2, 2100),
                           st.sampled_from([2, 3, 13, 15, 16, 17, 63, 64, 65, 127, 128, 129, 159, 160, 161, 255, 256, 257, 319, 320, 321,
                                            479, 480, 481, 639, 640, 641, 1023, 1024, 1025, 2047, 2048, 2099, 2100]),
                           st.integers(1, 1050).map(lambda k: 2 * k + 1)))
        klen = draw(st.one_of(st.integers(0, 64), st.sampled_from([0, 1, 16, 24, 32, 64])))
        c.update(n=n, key=draw(st.binary(min_size=klen, max_size=klen)).hex(),
                 x=draw(st.one_of(st.integers(0, (1 << n) - 1), st.sampled_from([0, 1, (1 << n) - 1, 1 << (n - 1)]))),
                 y=draw(st.integers(0, (1 << n) - 1)), route=draw(st.sampled_from(ROUTES)))
        if c["route"] in ("length_assign", "half_bits_left") and draw(st.booleans()):
            c["x"] = c["x"] % (1 << (n - 1))   # these routes produce strings with a leading zero bit
    elif kind == "lr":
        mlen = 2 * draw(st.integers(1, 32))
        klen = 3 * draw(st.integers(1, 32))
        m = draw(st.binary(min_size=mlen, max_size=mlen))
        m2 = draw(st.one_of(st.binary(min_size=mlen, max_size=mlen), st.just(m[:-1] + bytes([m[-1] ^ 1])),
                            st.just(bytes([m[0] ^ 0x80]) + m[1:])))
        c.update(alias=draw(st.sampled_from(LR_ALIASES)), digest=draw(st.sampled_from(["sha1", "sha256", "md5"])),
                 key=draw(st.binary(min_size=klen, max_size=klen)).hex(), m=m.hex(), m2=m2.hex())
    elif kind == "fpeprp_bitkey":
        kbits = draw(st.one_of(st.integers(1, 200), st.sampled_from([1, 7, 9, 20, 100, 127, 129, 191, 255, 257])))
        n = draw(st.integers(2, 40))
        top = (1 << kbits) - 1
        c.update(n=n, kbits=kbits, keys=[top, 1 << (kbits - 1), draw(st.integers(0, top)), draw(st.integers(0, top))],
                 xs=draw(st.lists(st.integers(0, (1 << n) - 1), min_size=1, max_size=6, unique=True)))
    elif kind == "fpeprp_contract":
        n = draw(st.integers(2, 300))
        kbits = 8 * draw(st.integers(1, 32))
        c.update(n=n, kbits=kbits, bad_n=draw(st.integers(1, 310).filter(lambda v: v != n)),
                 bad_kbits=draw(st.integers(1, 300).filter(lambda v: v != kbits)))
    else:
        what = draw(st.sampled_from(["odd_msg", "key_not_div3", "wrong_key", "wrong_msg", "unknown"]))
        c.update(what=what, alias=draw(st.sampled_from(LR_ALIASES)))
        if what == "odd_msg":
            c.update(mlen=2 * draw(st.integers(0, 32)) + 1, klen=3 * draw(st.integers(1, 32)))
        elif what == "key_not_div3":
            c.update(mlen=2 * draw(st.integers(1, 32)), klen=draw(st.integers(1, 97).filter(lambda v: v % 3)))
        elif what == "wrong_key":
            klen = 3 * draw(st.integers(1, 32))
            c.update(mlen=2 * draw(st.integers(1, 32)), klen=klen, bad=draw(st.integers(0, 100).filter(lambda v: v != klen)))
        elif what == "wrong_msg":
            mlen = 2 * draw(st.integers(1, 32))
            c.update(mlen=mlen, klen=3 * draw(st.integers(1, 32)), bad=draw(st.integers(0, 70).filter(lambda v: v != mlen)))
        else:
            c["name"] = draw(st.sampled_from(["AES-CBC", "HmacPRF", "", "LubyRackoff", "fpe", "bitwise fpe prp"]))
    return c


def is_nontrivial(c):
    if c["kind"] == "ffx_random":
        return c["n"] >= 13 or c["n"] % 2 == 1
    return True


def classes_of(c):
    out = ["kind:" + c["kind"]]
    if c["kind"] == "ffx_random":
        n = c["n"]
        out.append("n:" + ("2-12" if n <= 12 else "13-160" if n <= 160 else "161-640" if n <= 640 else "641-2100"))
        out.append("n:odd" if n % 2 else "n:even")
        r = c.get("route", "ctor")
        if r in ("length_assign", "half_bits_left") and c["x"] % (1 << n) >= (1 << (n - 1)):
            r = "ctor"
        out.append("bitset_obtained_by:" + r)
        out.append("keylen:%s" % ("0" if not c["key"] else "1-31" if len(c["key"]) < 64 else "32+"))
    if c["kind"] == "lr":
        out.append("lr:digest=" + c["digest"])
        out.append("lr:mlen=" + ("2" if len(c["m"]) == 4 else "4-20" if len(c["m"]) <= 40 else "22-64"))
    return out


def _keys(seed, count):
    out = []
    for i in range(count):
        h = hashlib.sha256(("c15key/%d/%d" % (seed, i)).encode()).digest()
        klen = [24, 16, 32, 0, 1, 3, 64, 7, 20, 48, 5, 12, 33, 2, 40, 9][i % 16]
        out.append((h + hashlib.sha256(h).digest())[:klen])
    return out


def shards(tier):
    nkeys = 6 if tier == "quick" else 16
    out = [{"kind": "ffx_exh", "k": i} for i in range(nkeys)]
    out += [{"kind": "lr_exh", "k": i} for i in range(1 if tier == "quick" else 4)]
    out += [{"kind": "hyp", "i": i} for i in range(6 if tier == "quick" else 12)]
    if tier == "thorough":
        out.append({"kind": "fuzz"})
    return out


def run_shard(spec, seed, tier):
    import sys
    mod = sys.modules[__name__]
    res = ShardResult()
    base = int(__import__("os").environ.get("VERIF_SEED", "1"))
    if spec["kind"] == "ffx_exh":
        key = _keys(base, 16)[spec["k"]]
        cases = [{"kind": "ffx_exhaustive", "key": key.hex(), "n": n,
                  "alias": ["BitwiseFPEPRP", "bitwise-fpe-prp", "bitwise_fpe_prp"][n % 3]} for n in range(2, 13)]
        simple.run_enumeration(res, mod, cases, nontrivial=True)
        res.extra["ffx_exhaustive_points"] = sum(1 << n for n in range(2, 13))
        res.extra["ffx_exhaustive_bounds"] = "per sampled key: all x in {0,1}^n for every n in 2..12"
        res.exhaustive = True
    elif spec["kind"] == "lr_exh":
        key = (hashlib.sha256(("c15lr/%d/%d" % (base, spec["k"])).encode()).digest() * 4)[:[48, 3, 24, 96][spec["k"] % 4]]
        simple.run_enumeration(res, mod, [{"kind": "lr_exhaustive2", "key": key.hex(),
                                           "digest": ["sha1", "sha256", "md5", "sha1"][spec["k"] % 4]}], nontrivial=True)
        res.extra["lr_exhaustive_points"] = 65536
        res.exhaustive = True
    elif spec["kind"] == "fuzz":
        simple.fuzz_stage(res, "props.c15", seed, 8000)
    else:
        hyp.search(res, st_case(), simple.make_body(mod), seed, 1000 if tier == "quick" else 15000)
    return res


FUZZ_STRATEGY = st_case
fuzz_body = run_case


def replay(case):
    import sys
    return simple.replay(sys.modules[__name__], case)

"""C12 — overlapping connections to one service are serialised and cannot roll state back."""
import asyncio
import contextlib
import hashlib
import itertools
import json
import pickle

from hypothesis import strategies as st

from vlib import hyp
from vlib import schemes as S
from vlib.drbg import entropy
from vlib.runner import HarnessError, ShardResult, Violation

ID = "C12"
LEVEL = "exploration"
RULE = ("a case is (scripts for up to 3 connections on one sid over {config, upload, search, close, abort = the peer vanishes without a closing handshake}, a schedule = sequence of choices "
        "among the enabled events open(c) / step(c) / release(any one of the pending cleanup delays) / timeout (a wait_for or asyncio.wait timeout the server armed expires; absent unless the code arms one; at most 2-4 per schedule) "
        "/ noise (once per schedule: 130-1100 connections of OTHER services open on the same server) / noise_close (one of them closes, its "
        "cleanup pause becomes one more pending release)); the harness owns every event: the server's "
        "timing sources (asyncio.sleep and wait_for timeouts in the server modules) are a gate and a timer controller driven by the schedule, the transport is an in-memory duplex with the "
        "exact websocket surface the server uses, and the loop is run to quiescence after every event. Oracle (history "
        "invariants): (S) no config/upload/result reply reaches connection j while an earlier-opened connection is neither closed "
        "by the harness nor by the server, and such a connection receives a control ('wait') message before any reply (W); (M) after closing everything and releasing all gates, a probe connection's init-echo "
        "state >= every state whose transition was acknowledged with ok:True; (I) probe searches answer from the acknowledged "
        "index; (L) the stored config and index are acknowledged ones. Exhaustive over all schedules of 2 connections with "
        "scripts of length <= 1 (+ selected length-2 scripts) and 3 connections with scripts of length <= 1 in quick; all scripts "
        "of length <= 2 / <= 1 in thorough; Hypothesis draws 3 connections x scripts <= 3 (a quarter with background traffic); every schedule of 4 script sets is also enumerated "
        "with the background burst as one more event, of 4 script sets with an abort, and of 2 three-connection sets in which all connections send the same configuration. Every violation is re-executed over real "
        "loopback sockets before it is reported. Non-trivial = at least two connections overlap in time and at least one "
        "transition is acknowledged; distinct = distinct (scripts, executed event sequence).")
ASSUMPTIONS = ["interleavings below the asyncio event level (OS socket reordering, multi-process servers) are out of reach",
               "the in-memory transport mirrors websockets 10.4's legacy server: closure before queued sends when the handler raises, "
               "recv-loop end before wait_closed waiters on client closure"]

SCHEME = "CJJ14.PiPack"
ITEMS = ["config", "upload", "search", "close"]


def fixtures(seed=1):
    base = S.default_config(SCHEME)
    base.update(param_B=2, param_identifier_size=4)
    cfgs, edbs = {}, {}
    loader = S.load(SCHEME)
    with entropy(("c12", seed)):
        sch = loader.SSEScheme(dict(base))
        key = sch.KeyGen()
        dbs = {}
        for c in range(4):
            cfg = dict(base)
            cfg["salt"] = "conn%d" % c
            cfgs[c] = cfg
            dbs[c] = {b"alpha": [bytes([c + 1, 1, 1, i + 1]) for i in range(3 + c)], b"beta": [bytes([c + 1, 2, 2, 2])]}
            edbs[c] = sch.EDBSetup(key, dbs[c]).serialize()
        toks = {w: sch.TokenGen(key, w).serialize() for w in (b"alpha", b"beta")}
    return {"cfg": cfgs, "edb": edbs, "db": dbs, "tok": toks, "loader": loader, "base": base}


_FX = {}


def fx():
    if "v" not in _FX:
        _FX["v"] = fixtures()
    return _FX["v"]


async def execute(case, transport="mem"):
    """runs one schedule; returns (events executed, World) and raises Violation on a broken invariant"""
    from vlib import sched
    F = fx()
    scripts = case["scripts"]
    choices = list(case["choices"])
    sid = hashlib.sha256(b"c12-service").hexdigest()
    world = sched.World(transport)
    await world.start()
    executed = []
    branching = []
    try:
        conns = [None] * len(scripts)
        pos = [0] * len(scripts)
        ack = {"state": 0, "cfg": set(), "edb": set()}
        noise_done = False
        timeouts_fired = 0
        noise_closed = False
        noise_conns = []
        k = 0
        while True:
            enabled = []
            for c in range(len(scripts)):
                if conns[c] is None:
                    if c == 0 or conns[c - 1] is not None:
                        enabled.append(("open", c))
                elif pos[c] < len(scripts[c]) and conns[c].client_closed_at is None:
                    enabled.append(("step", c))
            for gi in range(min(3, len([f for f in world.gate.pending if not f.done()]))):
                enabled.append(("release", gi))   # one pending pause elapses; more than one is pending only when the code lets pauses overlap
            if world.timers.pending and timeouts_fired < case.get("max_timeouts", 2):
                enabled.append(("timeout",))   # a timeout the server armed (wait_for / wait) expires now: only exists if the code arms one
            script_work = any(e[0] in ("open", "step") for e in enabled)
            if case.get("noise") and not noise_done and script_work:
                enabled.append(("noise",))
            if case.get("noise") and noise_done and not noise_closed and script_work:
                enabled.append(("noise_close",))   # one background connection closes: its cleanup pause becomes a pending release
            if not enabled:
                break
            ch = choices[k] % len(enabled) if k < len(choices) else 0
            branching.append((ch, len(enabled)))
            ev = enabled[ch]
            k += 1
            if ev[0] == "open":
                conns[ev[1]] = world.new_conn(sid)
                await conns[ev[1]].open()
                executed.append(["open", ev[1]])
            elif ev[0] == "step":
                c = ev[1]
                item = scripts[c][pos[c]]
                pos[c] += 1
                executed.append([item, c])
                if item == "config":
                    # by default every connection brings its own configuration; with same_cfg all bring the identical one (a client
                    # that re-sends what it already uploaded)
                    await conns[c].send("config", pickle.dumps(F["cfg"][0 if case.get("same_cfg") else c]))
                elif item == "upload":
                    await conns[c].send("upload_edb", F["edb"][c])
                elif item == "search":
                    tok = F["tok"][b"alpha"]
                    await conns[c].send("token", tok, token_digest=hashlib.sha256(tok).digest())
                elif item == "close":
                    await conns[c].close()
                elif item == "abort":
                    await conns[c].abort()
            elif ev[0] == "timeout":
                world.timers.fire_one()
                timeouts_fired += 1
                executed.append(["timeout"])
            elif ev[0] == "noise":
                # background traffic of OTHER services in the same server process: case["noise"] other service ids connect
                # (and stay connected until the end of the schedule)
                noise_done = True
                for i in range(case["noise"]):
                    nc = world.new_conn(hashlib.sha256(b"c12-noise-%d" % i).hexdigest())
                    await nc.open()
                    noise_conns.append(nc)
                    if i % 16 == 15:
                        await world.quiesce()
                executed.append(["noise", case["noise"]])
            elif ev[0] == "noise_close":
                noise_closed = True
                await noise_conns[0].close()
                executed.append(["noise_close"])
            else:
                world.gate.release_at(ev[1])
                executed.append(["release"] if ev[1] == 0 else ["release", ev[1]])
            await world.tick()
        for nc in noise_conns[(1 if noise_closed else 0):]:
            await nc.close()
        if noise_conns:
            await world.tick()
        # ---- teardown: close everything (in index order), release every gate -------------------------------
        for c in conns:
            if c is not None and c.client_closed_at is None and c.server_closed_at is None:
                await c.close()
                await world.tick()
        # (the server runs its cleanups one at a time -- each holds the manager's dictionary lock while it pauses -- so every
        # closed connection, background ones included, needs its own release)
        for _ in range(40 + 2 * len(noise_conns)):
            if not world.gate.pending:
                await world.tick()
                if not world.gate.pending:
                    break
            world.gate.release_one()
            if noise_conns and transport == "real":
                await asyncio.sleep(0.02)
                world.now += 1
            else:
                await world.tick()
        # ---- history invariant (S) and acknowledgements ---------------------------------------------------------
        live = [c for c in conns if c is not None]
        overlap = False
        for j, cj in enumerate(live):
            for i in range(j):
                ci = live[i]
                if ci.closed_at is None or ci.closed_at > cj.opened_at:
                    overlap = True
            # (W) a connection that arrives while an earlier one is still open is told to wait (control message) before anything else
            #     than its init echo reaches it
            blockers = [live[i] for i in range(j) if live[i].closed_at is None or live[i].closed_at > cj.opened_at]
            if blockers:
                kinds = [m.get("type") for (_, m) in cj.messages]
                first_other = next((k for k in kinds if k != "init"), None)
                if first_other is not None and first_other != "control":
                    raise Violation("connection %d was opened while connection %d was still open but was not told to wait (messages %r) "
                                    "| events: %r" % (j, live.index(blockers[0]), kinds, executed), "W:not_told_to_wait")
            for (t, m) in cj.messages:
                mt = m.get("type")
                ok_reply = mt in ("config", "upload_edb") and isinstance(m.get("decoded"), dict) and m["decoded"].get("ok") is True
                if ok_reply and mt == "config":
                    ack["state"] = max(ack["state"], 1)
                    ack["cfg"].add(j)
                if ok_reply and mt == "upload_edb":
                    ack["state"] = max(ack["state"], 2)
                    ack["edb"].add(j)
                if mt in ("config", "upload_edb", "result"):
                    for i in range(j):
                        ci = live[i]
                        if ci.closed_at is None or ci.closed_at > t:
                            raise Violation("connection %d received a %r reply at event %d while the earlier-opened connection %d was "
                                            "still open (closed at %r) | events: %r" % (j, mt, t, i, ci.closed_at, executed),
                                            "S:reply_while_earlier_connection_open")
        # ---- probe ---------------------------------------------------------------------------------------------------
        probe = world.new_conn(sid)
        await probe.open()
        await world.tick()
        init = [m for (_, m) in probe.messages if m.get("type") == "init"]
        if not init or not isinstance(init[0].get("decoded"), dict) or init[0]["decoded"].get("ok") is not True:
            raise Violation("after the schedule a probe connection gets no ok init echo (messages %r, closed by server: %r) | events: %r" % (
                [(m.get("type"), m.get("decoded")) for _, m in probe.messages], probe.server_closed_at is not None, executed),
                "M:probe_handshake_fails")
        pstate = init[0]["decoded"].get("state")
        if pstate < ack["state"]:
            raise Violation("a transition to state %d was acknowledged with ok:True but a probe connection afterwards is told state %r "
                            "| events: %r" % (ack["state"], pstate, executed), "M:state_rolled_back")
        if (len(ack["cfg"]) > 1 and not case.get("same_cfg")) or len(ack["edb"]) > 1:
            raise Violation("more than one configuration/index was acknowledged (%r / %r) | events: %r" % (
                sorted(ack["cfg"]), sorted(ack["edb"]), executed), "L:two_acknowledged")
        from vlib import rig
        ns = rig.modules()
        if ack["cfg"]:
            c = next(iter(ack["cfg"]))
            try:
                stored = ns.server_fm.read_service_config(sid)
            except Exception as e:
                stored = "unreadable: %s" % e
            if stored != json.loads(json.dumps(F["cfg"][0 if case.get("same_cfg") else c])):
                raise Violation("the acknowledged configuration (connection %d) is not the stored one | events: %r" % (c, executed),
                                "L:acknowledged_config_lost")
        if ack["edb"]:
            c = next(iter(ack["edb"]))
            try:
                stored = ns.server_fm.read_encrypted_database(sid)
            except Exception as e:
                stored = b""
            if stored != F["edb"][c]:
                raise Violation("the acknowledged index (connection %d) is not the stored one | events: %r" % (c, executed),
                                "L:acknowledged_index_lost")
            # (I) the probe searches the acknowledged index
            for w in (b"alpha", b"beta"):
                tok = F["tok"][w]
                n0 = len(probe.messages)
                await probe.send("token", tok, token_digest=hashlib.sha256(tok).digest())
                await world.tick()
                res = [m for (_, m) in probe.messages[n0:] if m.get("type") == "result"]
                got = None
                if res:
                    with contextlib.suppress(Exception):
                        got = pickle.loads(res[0]["content"])
                if got != F["db"][c][w]:
                    raise Violation("probe search for %r returned %r, the acknowledged index (connection %d) holds %r | events: %r" % (
                        w, got, c, F["db"][c][w], executed), "I:probe_search_wrong")
        await probe.close()
        await world.tick()
        traces = []
        for c in live + [probe]:
            traces.append({"messages": [(m.get("type"), repr(m.get("decoded")) if "decoded" in m else hashlib.sha256(repr(m.get("content")).encode()).hexdigest()[:12])
                                        for (_, m) in c.messages],
                           "closed_by_server": c.server_closed_at is not None and (c.client_closed_at is None or c.server_closed_at < c.client_closed_at)})
        return {"executed": executed, "branching": branching, "overlap": overlap, "ack": ack["state"], "traces": traces}
    finally:
        await world.stop()


def run_once(case, transport="mem"):
    from vlib import rig
    rig.modules()

    async def bounded():
        try:
            return await asyncio.wait_for(execute(case, transport), 60 if transport == "mem" else 120)
        except asyncio.TimeoutError:
            raise HarnessError("schedule did not finish within its time budget on the %s transport (inconclusive): %r" % (transport, case["scripts"]))
    return rig.run(bounded())


def run_case(case):
    """in-memory run; a violation is confirmed over real loopback sockets before it is reported (used by replay and by the
    final confirmation of the few cases a shard reports; the search itself runs on the in-memory transport only)"""
    try:
        return run_once(case, "mem")
    except Violation as v:
        try:
            run_once(case, "real")
        except Violation as v2:
            if v2.bucket == v.bucket:
                raise v
            raise Violation(str(v) + " [over real sockets the same schedule breaks a different invariant: %s]" % v2.bucket, v.bucket)
        raise HarnessError("in-memory transport reported %r but the same schedule over real loopback sockets held every invariant: %s" % (
            v.bucket, v))


# ---------------------------------------------------------------------------------------------------------
def enumerate_schedules(scripts, limit=None, noise=0, same_cfg=False):
    """stateless DFS over all schedules of the given scripts (each schedule is a full re-execution)"""
    prefix = []
    n = 0
    while True:
        case = {"scripts": scripts, "choices": list(prefix)}
        if noise:
            case["noise"] = noise
        if same_cfg:
            case["same_cfg"] = True
        yield case
        n += 1
        if limit and n >= limit:
            return
        br = case.get("_branching")
        if br is None:
            return
        i = len(br) - 1
        while i >= 0 and br[i][0] + 1 >= br[i][1]:
            i -= 1
        if i < 0:
            return
        prefix = [c for c, _ in br[:i]] + [br[i][0] + 1]


def script_sets(tier):
    one = [[]] + [[a] for a in ITEMS]
    two = one + [[a, b] for a in ITEMS for b in ITEMS if a != "close"]
    sel2 = one + [["config", "upload"], ["config", "close"], ["upload", "close"], ["search", "close"], ["config", "search"]]
    if tier == "quick":
        pairs = [[a, b] for a in sel2 for b in one]
        triples = [[a, b, c] for a in ([], ["config"], ["close"]) for b in ([], ["config"], ["close"]) for c in ([], ["upload"], ["close"])]
    else:
        pairs = [[a, b] for a in two for b in two]
        triples = [[a, b, c] for a in one for b in one for c in one]
    return pairs, triples


@st.composite
def st_case(draw):
    n = draw(st.sampled_from([2, 3, 3]))
    scripts = [draw(st.lists(st.sampled_from(ITEMS + ["abort"]), max_size=3)) for _ in range(n)]

    def cut(s):
        ends = [i for i, x in enumerate(s) if x in ("close", "abort")]
        return s[:ends[0] + 1] if ends else s
    scripts = [cut(s) for s in scripts]
    choices = draw(st.lists(st.integers(0, 5), max_size=30))
    case = {"scripts": scripts, "choices": choices}
    if draw(st.integers(0, 3)) == 0:
        case["noise"] = draw(st.sampled_from([130, 200, 300, 1100]))
    if draw(st.integers(0, 2)) == 0:
        case["same_cfg"] = True
    case["max_timeouts"] = 4
    return case


def confirm(res):
    """re-execute every violation this shard is about to report over real sockets; keep only confirmed ones"""
    kept = []
    for v in res.violations:
        case = {"scripts": v["case"]["scripts"], "choices": v["case"]["choices"]}
        if v["case"].get("noise"):
            case["noise"] = v["case"]["noise"]
        if v["case"].get("same_cfg"):
            case["same_cfg"] = True
        if v["case"].get("max_timeouts"):
            case["max_timeouts"] = v["case"]["max_timeouts"]
        try:
            run_case(case)
        except Violation as v2:
            kept.append({"case": case, "msg": str(v2), "bucket": v["bucket"]})
        except HarnessError as e:
            res.harness_errors.append(str(e))
        else:
            res.harness_errors.append("violation %r of the in-memory run did not reproduce on a second in-memory run (flaky harness)" % v["bucket"])
    res.violations = kept


def body(case, res):
    info = None
    try:
        info = run_once(case, "mem")
        case["_branching"] = info["branching"]
    finally:
        nt = bool(info and info["overlap"] and info["ack"] >= 1)
        cl = ["connections:%d" % len(case["scripts"])]
        if info and any(e[0] == "noise" for e in info["executed"]):
            cl.append("background_traffic_of_other_services")
        if info and any(e[0] == "timeout" for e in info["executed"]):
            cl.append("server_timeout_fired")
        if info:
            cl.append("overlap" if info["overlap"] else "no_overlap")
            cl.append("ack_state:%d" % info["ack"])
        if case.get("same_cfg"):
            cl.append("all_connections_send_the_same_configuration")
        res.count([case["scripts"], info["executed"] if info else case["choices"], case.get("noise", 0), bool(case.get("same_cfg"))], nt, cl,
                  sample={"scripts": case["scripts"], "events": info["executed"] if info else None})


def fidelity_body(case, res):
    """transport differential: the same schedule over the in-memory transport and over real loopback sockets must give the same
    per-connection message traces (this is what licenses the in-memory exploration)"""
    try:
        a = run_once(case, "mem")
    except Violation:
        raise
    b = run_once(case, "real")
    res.count([case["scripts"], a["executed"], "fidelity"], a["overlap"], ["fidelity_pair", "connections:%d" % len(case["scripts"])],
              sample={"scripts": case["scripts"], "events": a["executed"], "fidelity": True})
    if a["executed"] != b["executed"]:
        raise HarnessError("transport differential: the two transports enabled different events for %r: %r vs %r" % (
            case["scripts"], a["executed"], b["executed"]))
    if a["traces"] != b["traces"]:
        raise HarnessError("transport differential: message traces differ for scripts %r events %r: mem %r real %r" % (
            case["scripts"], a["executed"], a["traces"], b["traces"]))


# script sets whose every schedule is also enumerated with a burst of 130 connections of OTHER services as one more event
NOISE_SCRIPTS = [[["config"], ["upload"]], [["config", "upload"], ["search"]], [[], ["config"]], [["config"], ["close"], ["upload"]]]
# script sets whose every schedule is enumerated with all connections sending the SAME configuration
SAME_CFG_SCRIPTS = [[["config", "upload"], ["config"], ["upload"]], [["config"], ["config", "upload"], ["upload"]]]
# script sets in which a connection ends WITHOUT a closing handshake (peer killed, network gone): every schedule enumerated
ABORT_SCRIPTS = [[["config", "abort"], ["upload"]], [["config", "abort"], ["upload", "close"], ["upload"]], [["abort"], ["config"]],
                 [["config", "upload", "abort"], ["search"]]]


MAX_SCHEDULES_PER_SHARD = 6000


def shards(tier):
    pairs, triples = script_sets(tier)
    nsh = 8 if tier == "quick" else 14
    out = [{"kind": "exhaustive", "part": i, "of": nsh} for i in range(nsh)]
    out += [{"kind": "hyp", "i": i} for i in range(2 if tier == "quick" else 6)]
    out += [{"kind": "fidelity", "i": i} for i in range(1 if tier == "quick" else 4)]
    out += [{"kind": "noise", "part": i} for i in range(len(NOISE_SCRIPTS))]
    # the same with 1100 background connections (more than a thousand other services between two connections of the one under test)
    out += [{"kind": "noise", "part": i, "n": 1100} for i in ([2] if tier == "quick" else [2, 0])]
    out += [{"kind": "same_cfg", "part": i} for i in range(len(SAME_CFG_SCRIPTS))]
    out += [{"kind": "abort", "part": i} for i in range(len(ABORT_SCRIPTS))]
    return out


def run_shard(spec, seed, tier):
    res = ShardResult()
    if spec["kind"] == "hyp":
        hyp.search(res, st_case(), body, seed, 200 if tier == "quick" else 2000)
        confirm(res)
        return res
    if spec["kind"] == "fidelity":
        hyp.search(res, st_case(), fidelity_body, seed, 8 if tier == "quick" else 60, shrink=False)
        return res
    pairs, triples = script_sets(tier)
    allscripts = pairs + triples
    noise = 0
    same_cfg = spec["kind"] == "same_cfg"
    if spec["kind"] == "noise":
        mine, noise = [NOISE_SCRIPTS[spec["part"]]], spec.get("n", 130)
    elif same_cfg:
        mine = [SAME_CFG_SCRIPTS[spec["part"]]]
    elif spec["kind"] == "abort":
        mine = [ABORT_SCRIPTS[spec["part"]]]
    else:
        mine = [s for i, s in enumerate(allscripts) if i % spec["of"] == spec["part"]]
    first = {}
    nsched = 0
    violating_sets = 0
    for scripts in mine:
        if violating_sets >= 3:
            res.notes.append("enumeration stopped early: three script sets already violate an invariant")
            res.exhaustive = False
            break
        for case in enumerate_schedules(scripts, noise=noise, same_cfg=same_cfg):
            nsched += 1
            if nsched > MAX_SCHEDULES_PER_SHARD:
                # only code that arms timers makes the schedule space this large (every armed timeout is one more event everywhere)
                res.notes.append("enumeration cut off after %d schedules" % MAX_SCHEDULES_PER_SHARD)
                res.exhaustive = False
                break
            try:
                body(case, res)
            except Violation as v:
                if v.bucket not in first or len(json.dumps(case["scripts"])) < len(json.dumps(first[v.bucket][0]["scripts"])):
                    c = {"scripts": case["scripts"], "choices": case["choices"]}
                    if case.get("noise"):
                        c["noise"] = case["noise"]
                    if case.get("same_cfg"):
                        c["same_cfg"] = True
                    first[v.bucket] = (c, str(v))
                # continue the enumeration below this schedule is impossible without its branching factors: stop this script set
                violating_sets += 1
                break
    if res.exhaustive is None:
        res.exhaustive = True
    if spec["kind"] == "abort":
        res.extra["abort_schedules"] = nsched
        res.extra["abort_bounds"] = "every schedule of %d script sets in which a connection ends without a closing handshake" % len(ABORT_SCRIPTS)
        for bucket, (case, msg) in first.items():
            res.add_violation(case, msg, bucket)
        confirm(res)
        return res
    if spec["kind"] == "same_cfg":
        res.extra["same_cfg_schedules"] = nsched
        res.extra["same_cfg_bounds"] = "every schedule of %d three-connection script sets in which all connections send the same configuration" % len(SAME_CFG_SCRIPTS)
        for bucket, (case, msg) in first.items():
            res.add_violation(case, msg, bucket)
        confirm(res)
        return res
    if spec["kind"] == "noise":
        res.extra["noise_schedules"] = nsched
        res.extra["noise_bounds"] = "every schedule of %d script sets with a burst of 130 connections of other services as one more event" % len(NOISE_SCRIPTS)
        for bucket, (case, msg) in first.items():
            res.add_violation(case, msg, bucket)
        confirm(res)
        return res
    res.extra["exhaustive_schedules"] = nsched
    res.extra["exhaustive_script_sets"] = len(mine)
    res.extra["exhaustive_bounds"] = ("every schedule (interleaving of opens, script steps and cleanup releases) of: 2 connections with "
                                      + ("scripts of length <= 1 plus selected length-2 scripts; 3 connections over {[],[config|upload],[close]}"
                                         if tier == "quick" else "all scripts of length <= 2; 3 connections with all scripts of length <= 1"))
    for bucket, (case, msg) in first.items():
        res.add_violation(case, msg, bucket)
    confirm(res)
    return res


def replay(case):
    try:
        run_case({"scripts": case["scripts"], "choices": case["choices"]})
    except Violation as v:
        return str(v)
    return None

"""C07 — setup and search leave their inputs intact; searches repeat in any order."""
import copy
import importlib

from hypothesis import strategies as st

from vlib import hyp
from vlib import schemes as S
from vlib import search_props as SP
from vlib.drbg import entropy
from vlib.runner import ShardResult, Violation
from vlib.search_common import stage_violation

ID = "C07"
LEVEL = "exploration"
RULE = ("a case is (scheme, configuration, key, valid database, search history of up to 15 (quick) / 40 (thorough) steps drawn by "
        "Hypothesis from {search present w, search absent w', repeat the previous search, search with a freshly generated token, "
        "search again with a previously used token object}). Oracle (history invariants): deep copies of DB, the config dict, "
        "the scheme module's DEFAULT_CONFIG, K.serialize() and the key order of DB taken before SSEScheme/KeyGen/EDBSetup equal "
        "the originals afterwards; EDB.serialize() is byte-identical to the post-setup snapshot after every step; every token "
        "serializes identically before and after each use; every answer equals DB.get(w, empty) and the first answer given for "
        "that keyword - also when the caller modifies the result lists it was given (half of the cases) and, for small databases, across up "
        "to 32 index generations built by the same scheme object and key with the posting lists rotated among the keywords. Non-trivial = history has >= 3 searches incl. a repeat and an absent keyword, or the scheme pads the "
        "database (CT14/ANSS16 with N not a power of two); distinct = distinct (scheme, config, profile, history).")
ASSUMPTIONS = ["scan_database_and_update_config_dict (an explicit mutator) and the client's salt insertion are outside this property"]


def run_case(case):
    scheme = case["scheme"]
    desc, loader, cfg, db = S.prepare(case)
    mod_cfg = importlib.import_module("schemes.%s.config" % scheme)
    with entropy(case["seed"]):
        db_copy, cfg_copy = copy.deepcopy(db), copy.deepcopy(cfg)
        default_copy = copy.deepcopy(mod_cfg.DEFAULT_CONFIG)
        order = list(db.keys())
        try:
            sch = loader.SSEScheme(cfg)
            key = sch.KeyGen()
        except Exception as e:
            raise stage_violation(scheme, "SSEScheme/KeyGen", e)
        key_raw = key.serialize()
        try:
            edb = sch.EDBSetup(key, db)
        except Exception as e:
            raise stage_violation(scheme, "EDBSetup", e)
        if db != db_copy or list(db.keys()) != order:
            raise Violation("%s: EDBSetup changed the caller's database" % scheme, "%s:db_mutated" % scheme)
        if cfg != cfg_copy:
            raise Violation("%s: the caller's configuration dict was changed (%r)" % (
                scheme, sorted(set(cfg) ^ set(cfg_copy)) or [k for k in cfg if cfg[k] != cfg_copy.get(k)]), "%s:cfg_mutated" % scheme)
        if mod_cfg.DEFAULT_CONFIG != default_copy:
            raise Violation("%s: the module's DEFAULT_CONFIG was changed" % scheme, "%s:default_cfg_mutated" % scheme)
        if key.serialize() != key_raw:
            raise Violation("%s: EDBSetup changed the key" % scheme, "%s:key_mutated" % scheme)
        if case.get("caller_edits_cfg"):
            # the dictionary belongs to the caller, who goes on using it as a template for another service: every numeric field
            # changes, names are dropped -- the scheme object and the index that exist already must not care
            for k_ in list(cfg):
                if isinstance(cfg[k_], bool):
                    continue
                if isinstance(cfg[k_], int) and k_ != "scheme":
                    cfg[k_] = cfg[k_] + 1 if cfg[k_] % 2 else max(1, cfg[k_] // 2)
                elif isinstance(cfg[k_], str) and k_ != "scheme":
                    cfg[k_] = "edited-" + cfg[k_]
            cfg_copy = copy.deepcopy(cfg)
        snap = edb.serialize()
        edb_first = edb
        kws = order
        absent = [w for w, _ in SP.absent_for(case, type("B", (), {"db": db, "desc": desc, "cfg": cfg})())]
        first_answer = {}
        tokens = {}
        last = None
        for step, op in enumerate(case["ops"]):
            kind = op[0]
            if kind == "again":
                if last is None:
                    continue
                w, fresh = last, False
            elif kind in ("present", "fresh_present"):
                w, fresh = kws[op[1] % len(kws)], kind.startswith("fresh")
            elif kind in ("absent", "fresh_absent"):
                if not absent:
                    continue
                w, fresh = absent[op[1] % len(absent)], kind.startswith("fresh")
            elif kind == "reuse":
                if not tokens:
                    continue
                w = sorted(tokens)[op[1] % len(tokens)]
                fresh = False
            else:
                raise ValueError(kind)
            try:
                if fresh or w not in tokens:
                    tokens[w] = sch.TokenGen(key, w)
                tk = tokens[w]
                tk_raw = tk.serialize()
                got = sch.Search(edb, tk).get_result_list()
            except Exception as e:
                raise stage_violation(scheme, "step %d %r" % (step, op), e)
            last = w
            if tk.serialize() != tk_raw:
                raise Violation("%s: step %d: Search changed the token" % (scheme, step), "%s:token_mutated" % scheme)
            if not S.result_matches(desc, got, db_copy, w):
                raise Violation("%s: step %d %r: answer for %r has %d ids, expected %d (history %r)" % (
                    scheme, step, op, w, len(got), len(db_copy.get(w, [])), case["ops"][:step + 1]),
                    "%s:wrong_answer_in_history" % scheme)
            if w in first_answer and first_answer[w] != got:
                raise Violation("%s: step %d: answer for %r differs from its first answer" % (scheme, step, w), "%s:answer_changed" % scheme)
            first_answer.setdefault(w, copy.deepcopy(got))
            # the answer belongs to the caller, who may do with it what it likes (merge other results into it, empty it): later
            # answers must not be affected
            if case.get("mutate_results"):
                if isinstance(got, list):
                    got.extend([b"\xee" * desc.id_size(cfg), b"\xdd" * desc.id_size(cfg)])
                    if step % 2:
                        del got[:]
                elif isinstance(got, set):
                    got.add(b"\xee" * desc.id_size(cfg))
                    if step % 2:
                        got.clear()
            now = edb.serialize()
            if now != snap:
                raise Violation("%s: step %d %r: the encrypted database changed during Search" % (scheme, step, op), "%s:edb_mutated" % scheme)
            if key.serialize() != key_raw:
                raise Violation("%s: step %d: the key changed" % (scheme, step), "%s:key_mutated" % scheme)
        if db != db_copy or cfg != cfg_copy or mod_cfg.DEFAULT_CONFIG != default_copy:
            raise Violation("%s: database / config changed during the search history" % scheme, "%s:inputs_mutated_by_search" % scheme)
        # a second scheme object of the same scheme, configured with more capacity (what a growing collection calls for), gets the
        # same key bytes and encrypts the same database: its answers are those of the database too
        if case.get("second_object"):
            try:
                cfg2 = copy.deepcopy(cfg_copy if not case.get("caller_edits_cfg") else S.public_cfg(desc.finalize(case["cfg"], db_copy)))
                for f_, add_ in (("param_n", 3), ("param_s", None), ("param_dictionary_size", 5), ("param_max_file_size", 7)):
                    if f_ in cfg2 and isinstance(cfg2[f_], int):
                        cfg2[f_] = cfg2[f_] * 2 if add_ is None else cfg2[f_] + add_
                sch2 = loader.SSEScheme(cfg2)
                key2 = loader.SSEKey.deserialize(key_raw, loader.SSEConfig(copy.deepcopy(cfg2)))
                edb2 = sch2.EDBSetup(key2, copy.deepcopy(db_copy))
                for w in kws[:4] + absent[:1]:
                    got = sch2.Search(edb2, sch2.TokenGen(key2, w)).get_result_list()
                    if not S.result_matches(desc, got, db_copy, w):
                        raise Violation("%s: a second scheme object (more capacity, same key bytes, same database) answers %r with %d ids, "
                                        "expected %d" % (scheme, w, len(got), len(db_copy.get(w, []))), "%s:second_scheme_object" % scheme)
                    got1 = sch.Search(edb_first, sch.TokenGen(key, w)).get_result_list()
                    if not S.result_matches(desc, got1, db_copy, w):
                        raise Violation("%s: after a second scheme object was used, the first one answers %r with %d ids, expected %d" % (
                            scheme, w, len(got1), len(db_copy.get(w, []))), "%s:first_object_after_second" % scheme)
            except Violation:
                raise
            except Exception as e:
                raise stage_violation(scheme, "second scheme object", e)
        # index generations: the same scheme object and key encrypt the database again and again with the posting lists rotated
        # among the keywords (every earlier index is dropped first); each generation answers from ITS database
        gens = case.get("generations", 0)
        if gens and len(kws) >= 2 and len({tuple(v) for v in db.values()}) >= 2:
            import gc
            lists = [list(v) for v in db.values()]
            last_q = None
            for g in range(1, gens + 1):
                edb = None
                gc.collect()
                dbg = {w: list(lists[(i + g) % len(lists)]) for i, w in enumerate(kws)}
                try:
                    edb = sch.EDBSetup(key, dbg)
                    qs = kws[:4] + absent[:1]
                    qs = qs[-(g % len(qs)):] + qs[:-(g % len(qs))] if g % len(qs) else qs
                    if g > 1:
                        qs = [last_q] + [w for w in qs if w != last_q]   # the first query repeats the last one asked of the previous index
                    last_q = qs[-1]
                    for w in qs:
                        got = sch.Search(edb, sch.TokenGen(key, w)).get_result_list()
                        if not S.result_matches(desc, got, dbg, w):
                            raise Violation("%s: generation %d of the index (same scheme object and key, posting lists rotated) answers %r with %d "
                                            "ids, expected %d" % (scheme, g, w, len(got), len(dbg.get(w, []))), "%s:stale_answer_across_generations" % scheme)
                except Violation:
                    raise
                except Exception as e:
                    raise stage_violation(scheme, "index generation %d" % g, e)


@st.composite
def st_ops(draw, max_ops):
    op = st.one_of(
        st.tuples(st.sampled_from(["present", "present", "absent", "fresh_present", "fresh_absent", "reuse"]), st.integers(0, 50)).map(list),
        st.just(["again"]))
    return draw(st.lists(op, min_size=1, max_size=max_ops))


@st.composite
def st_case(draw, scheme, max_ops):
    c = draw(S.st_scheme_case(scheme, max_total=120))
    c["ops"] = draw(st_ops(max_ops))
    c["mutate_results"] = draw(st.booleans())
    c["caller_edits_cfg"] = draw(st.integers(0, 2)) == 0
    c["second_object"] = draw(st.integers(0, 2)) == 0
    if sum(c["db"]["lens"]) <= 60 and scheme not in ("CGKO06.SSE1", "CGKO06.SSE2"):
        c["generations"] = draw(st.sampled_from([0, 0, 4, 16, 32]))
    elif sum(c["db"]["lens"]) <= 30:
        c["generations"] = draw(st.sampled_from([0, 0, 3]))
    return c


def flags(case):
    ops = case["ops"]
    searches = [o for o in ops]
    has_absent = any(o[0] in ("absent", "fresh_absent") for o in ops)
    seen, repeat = set(), False
    for o in ops:
        k = tuple(o[:2]) if o[0] != "again" else ("again",)
        if o[0] in ("again", "reuse") or (o[0].replace("fresh_", ""), o[1] if len(o) > 1 else None) in seen:
            repeat = True
        if len(o) > 1:
            seen.add((o[0].replace("fresh_", ""), o[1]))
    N = sum(case["db"]["lens"])
    pads = case["scheme"] in ("CT14.Pi", "ANSS16.Scheme3") and N & (N - 1) != 0
    return len(searches) >= 3 and repeat and has_absent, pads


def body(case, res):
    hist, pads = flags(case)
    cl = ["scheme:" + case["scheme"], "history:" + ("rich" if hist else "simple")]
    if pads:
        cl.append("scheme_pads_db")
    if case.get("mutate_results"):
        cl.append("caller_modifies_returned_results")
    if case.get("generations"):
        cl.append("index_generations:%d" % case["generations"])
    if case.get("caller_edits_cfg"):
        cl.append("caller_edits_its_config_dict_after_setup")
    if case.get("second_object"):
        cl.append("second_scheme_object_same_key")
    res.count(SP.fp_of(case) + [case["ops"], bool(case.get("mutate_results")), case.get("generations", 0)], hist or pads, cl,
              sample=dict(SP.sample_of(case), ops=case["ops"]))
    run_case(case)


def explicit_cases(scheme, tier):
    """every boundary profile (N = 2^t with non-power-of-two lists, single lists of 2^t, lists on thresholds ...) under small
    configurations with one fixed history: deterministic coverage of the padding paths of setup"""
    hist = [["present", 0], ["absent", 0], ["again"], ["present", 1], ["reuse", 0], ["fresh_present", 0]]
    profs = SP.BOUNDARY_PROFILES + [[3, 1], [5, 3], [3, 3, 2], [7, 1], [6, 6, 4], [5, 5, 5, 1], [9, 7], [11, 5], [13, 3], [3, 5]]
    for ci in range(1 if tier == "quick" else 3):
        cfg = SP.small_config(scheme, ci)
        desc = S.DESCS[scheme]
        for prof in profs:
            if isinstance(desc, S.SSE2) and sum(prof) > 40:
                continue
            if sum(prof) > 140 and tier == "quick":
                continue
            if SP.lens_valid(desc, cfg, prof):
                c = SP.explicit_case(scheme, cfg, prof, 17 + len(prof))
                c["ops"] = hist
                yield c


def shards(tier):
    out = [{"kind": "hyp", "scheme": s, "i": 0} for s in S.SCHEMES]
    out += [{"kind": "explicit", "scheme": s} for s in S.SCHEMES]
    if tier == "thorough":
        out += [{"kind": "hyp", "scheme": s, "i": 1} for s in S.SCHEMES]
    return out


def run_shard(spec, seed, tier):
    res = ShardResult()
    if spec["kind"] == "explicit":
        first = {}
        for case in explicit_cases(spec["scheme"], tier):
            try:
                body(case, res)
            except Violation as v:
                if v.bucket not in first:
                    first[v.bucket] = (case, str(v))
        res.extra["explicit_bounds"] = "boundary length profiles x small configuration(s) x one fixed search history"
        for bucket, (case, msg) in first.items():
            res.add_violation(case, msg, bucket)
        return res
    n, max_ops = (200, 15) if tier == "quick" else (800, 40)
    if spec["scheme"] == "CGKO06.SSE2":
        n //= 2
    hyp.search(res, st_case(spec["scheme"], max_ops), body, seed, n)
    return res


def replay(case):
    try:
        run_case(case)
    except Violation as v:
        return str(v)
    return None

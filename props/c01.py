"""C01 — Search returns exactly the posting list of every stored keyword."""
from vlib import search_props as SP

ID = "C01"
LEVEL = "exploration"
RULE = ("a case is (scheme, configuration from the supported grid, key from KeyGen under a seeded DRBG, valid database); databases "
        "are built by construction from a length profile (uniform small / lengths on the block, level and case thresholds of the "
        "active configuration / one list of 2^j postings / many lists of 2^j+1 / N=1 / single keyword / N around 2^t), structured "
        "keyword families and identifier layouts (big/little-endian counters, hashed, shared pool); plus every integer partition "
        "of N <= 9 (quick) / <= 16 under 3 configs (thorough) and the default configurations at their own boundaries; for 8 schemes (not SSE-2) a keyword contained in 2^16-1 / 2^16 / 2^16+1 "
        "documents (2^17+1 for the block-based CJJ14 schemes). Oracle: "
        "Search(Setup(DB),Tok(w)) == DB[w] for every w (set for DP17), once token-by-token and once as a batch (up to 8 tokens generated first, "
        "searched in reverse order, the first token used a second time), any exception on a valid input is a violation. "
        "Non-trivial = the profile hits a boundary class (N=1, N=2^t, one list holding all 2^t postings, a list on a threshold, "
        "Pi2Lev medium/large case, DP17 L>1); distinct = distinct (scheme, config, sorted length profile, id layout).")
ASSUMPTIONS = ["valid database = the quantifier of C01 (non-empty keywords without leading NUL within the scheme's limit, non-empty "
               "duplicate-free lists of non-zero identifiers of the configured size, capacities respected)",
               "os.urandom / random are a seeded DRBG inside the check process"]


def shards(tier):
    return SP.make_shards(tier, huge=True)


def run_shard(spec, seed, tier):
    return SP.run_shard_generic(spec, seed, tier, "present")


def replay(case):
    return SP.replay_generic(case, "present")

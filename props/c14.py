"""C14 — AES-CBC wrapper: correct decryption, fixed expansion, fresh randomness, length contracts."""
from hypothesis import strategies as st

from vlib import hyp, simple
from vlib.drbg import entropy
from vlib.runner import ShardResult, Violation

ID = "C14"
LEVEL = "exploration"
RULE = ("cases are (alias, key length in {16,24,32}, key, message, second key, declared lengths (none / message only / cipher only / both), entropy seed); every message "
        "length 0..80 is enumerated for 3 key lengths, Hypothesis adds random lengths up to 5000 and contract breaches (bad "
        "key lengths, declared message/cipher length mismatches, bad constructor arguments). Oracles: round-trip, length law "
        "16+16*(len//16+1), two encryptions differ (IV and body) and up to 1100 encryptions of one (key, message) in one process are pairwise distinct, wrong key raises or returns != m, an independent "
        "AES-CBC/PKCS7 decryption written in the harness agrees, histories of Encrypt/Decrypt calls with two or three keys on ONE cipher object "
        "(all orders up to depth 3-4 over {Encrypt,Decrypt}x{k0,k1} plus random ones up to 12 calls; each produced ciphertext is decrypted by "
        "the independent implementation under the key that was passed, each decryption is compared with what was encrypted), breaches raise ValueError. Non-trivial = message length >= 1 "
        "that is a multiple of 16, or > 16, or a contract-breach case; distinct = distinct case.")
ASSUMPTIONS = ["the `cryptography` package's AES/CBC/PKCS7 primitives are trusted as the independent reference",
               "os.urandom is replaced by a seeded non-repeating DRBG inside the check process"]

ALIASES = ["AES-CBC", "aes-cbc", "AES_CBC", "aes_cbc", "AESCBC", "aescbc", "Aes-Cbc"]


def B(h):
    return bytes.fromhex(h)


def ref_decrypt(key, ct):
    from cryptography.hazmat.primitives.ciphers import Cipher, algorithms, modes
    from cryptography.hazmat.primitives import padding
    iv, body = ct[:16], ct[16:]
    d = Cipher(algorithms.AES(key), modes.CBC(iv)).decryptor()
    p = d.update(body) + d.finalize()
    u = padding.PKCS7(128).unpadder()
    return u.update(p) + u.finalize()


def ref_encrypt(key, iv, m):
    from cryptography.hazmat.primitives.ciphers import Cipher, algorithms, modes
    from cryptography.hazmat.primitives import padding
    pd = padding.PKCS7(128).padder()
    p = pd.update(m) + pd.finalize()
    e = Cipher(algorithms.AES(key), modes.CBC(iv)).encryptor()
    return iv + e.update(p) + e.finalize()


def expect_value_error(fn, what):
    try:
        r = fn()
    except ValueError:
        return
    except Exception as e:
        raise Violation("%s: raised %s (%s) instead of ValueError" % (what, type(e).__name__, e), what + ":wrongexc")
    raise Violation("%s: accepted" % what, what + ":accepted")


def run_case(case):
    from toolkit.symmetric_encryption import get_symmetric_encryption_implementation as get
    kind = case["kind"]
    try:
        with entropy(case["seed"]):
            cls = get(case["alias"])
            if kind == "roundtrip":
                key, m = B(case["key"]), B(case["m"])
                kw = {"key_length": len(key)}
                dec = case.get("declare")
                if dec is True:
                    dec = "both"
                if dec in ("both", "message"):
                    kw["message_length"] = len(m)
                if dec in ("both", "cipher"):
                    kw["cipher_length"] = 16 + 16 * (len(m) // 16 + 1)
                ske = cls(**kw)
                c1 = ske.Encrypt(key, m)
                c2 = ske.Encrypt(key, m)
                want_len = 16 + 16 * (len(m) // 16 + 1)
                if len(c1) != want_len or len(c2) != want_len:
                    raise Violation("ciphertext length %d for %d-byte message, expected %d" % (len(c1), len(m), want_len), "length")
                if ske.Decrypt(key, c1) != m or ske.Decrypt(key, c2) != m:
                    raise Violation("Decrypt(Encrypt(m)) != m (len %d)" % len(m), "roundtrip")
                if c1 == c2:
                    raise Violation("two encryptions of the same message are identical", "fresh:equal")
                if c1[:16] == c2[:16]:
                    raise Violation("two encryptions share their IV", "fresh:iv")
                if c1[16:32] == c2[16:32]:
                    raise Violation("two encryptions share their first ciphertext block", "fresh:block")
                try:
                    r = ref_decrypt(key, c1)
                except Exception as e:
                    raise Violation("independent AES-CBC/PKCS7 decryption fails: %s" % e, "ref:fail")
                if r != m:
                    raise Violation("independent AES-CBC/PKCS7 decryption gives a different plaintext", "ref:differs")
                k2 = B(case["key2"])
                if k2 != key:
                    try:
                        r2 = ske.Decrypt(k2, c1)
                    except Exception:
                        r2 = None
                    if r2 == m:
                        raise Violation("decryption under a different key returned the original message", "wrongkey")
                kg = ske.KeyGen()
                if len(kg) != len(key):
                    raise Violation("KeyGen returns %d bytes for key_length %d" % (len(kg), len(key)), "keygen")
                kg2 = ske.KeyGen()
                if kg == kg2:
                    raise Violation("KeyGen returned the same key twice", "keygen:fresh")
            elif kind == "history":
                # ONE cipher object used with several keys in an arbitrary order of Encrypt / Decrypt calls; every ciphertext it
                # produces is checked by the independent decryption under the key that was passed, every decryption against the
                # message that was encrypted (ciphertexts 0..len(keys)-1 come from the independent encryption)
                import hashlib
                keys = [B(k) for k in case["keys"]]
                msgs = [B(m) for m in case["msgs"]]
                ske = cls(key_length=len(keys[0]))
                cts = [(i, msgs[i % len(msgs)], ref_encrypt(k, hashlib.sha256(b"iv%d" % i + k).digest()[:16], msgs[i % len(msgs)]))
                       for i, k in enumerate(keys)]
                for n_op, (op, ki, j) in enumerate(case["ops"]):
                    ki %= len(keys)
                    if op == "enc":
                        m = msgs[j % len(msgs)]
                        c = ske.Encrypt(keys[ki], m)
                        try:
                            r = ref_decrypt(keys[ki], c)
                        except Exception:
                            r = None
                        if r != m:
                            raise Violation("operation #%d Encrypt(key %d, m): the independent AES-CBC/PKCS7 decryption under that key does "
                                            "not return m (history %r)" % (n_op, ki, case["ops"][:n_op + 1]), "history:encrypt_under_other_key")
                        for kj, other in enumerate(keys):
                            if kj != ki:
                                try:
                                    r2 = ref_decrypt(other, c)
                                except Exception:
                                    r2 = None
                                if r2 == m:
                                    raise Violation("operation #%d: the ciphertext made under key %d decrypts to m under key %d" % (n_op, ki, kj),
                                                    "history:wrongkey_decrypts")
                        cts.append((ki, m, c))
                    else:
                        cki, m, c = cts[j % len(cts)]
                        try:
                            r = ske.Decrypt(keys[ki], c)
                        except Exception as e:
                            if cki == ki:
                                raise Violation("operation #%d Decrypt(key %d, ciphertext made under key %d) raised %s: %s (history %r)"
                                                % (n_op, ki, cki, type(e).__name__, e, case["ops"][:n_op + 1]), "history:decrypt_fails")
                            continue
                        if cki == ki and r != m:
                            raise Violation("operation #%d Decrypt(key %d, .) of a ciphertext made under that key does not return the message "
                                            "(history %r)" % (n_op, ki, case["ops"][:n_op + 1]), "history:roundtrip")
                        if cki != ki and r == m:
                            raise Violation("operation #%d Decrypt under key %d returned the message encrypted under key %d (history %r)"
                                            % (n_op, ki, cki, case["ops"][:n_op + 1]), "history:wrongkey")
            elif kind == "fresh_many":
                # one (key, message) encrypted many times in one process: all ciphertexts and all IVs pairwise distinct
                key, m = B(case["key"]), B(case["m"])
                ske = cls(key_length=len(key))
                seen_c, seen_iv = set(), set()
                for i in range(case["count"]):
                    c = ske.Encrypt(key, m)
                    if c in seen_c:
                        raise Violation("encryption #%d of the same (key, message) repeats an earlier ciphertext" % i, "fresh:repeat_after_many")
                    if c[:16] in seen_iv:
                        raise Violation("encryption #%d reuses an earlier IV" % i, "fresh:iv_repeat_after_many")
                    seen_c.add(c)
                    seen_iv.add(c[:16])
                if ske.Decrypt(key, c) != m:
                    raise Violation("Decrypt(Encrypt(m)) != m after many encryptions", "roundtrip")
            elif kind == "bad_ctor_keylen":
                expect_value_error(lambda: cls(key_length=case["klen"]), "ctor(key_length=%d)" % case["klen"])
            elif kind == "bad_ctor_cipherlen":
                expect_value_error(lambda: cls(key_length=16, cipher_length=case["clen"]), "ctor(cipher_length not multiple of 16)")
            elif kind == "bad_key":
                ske = cls(key_length=case["klen"])
                key, m = B(case["key"]), B(case["m"])
                if len(key) in (16, 24, 32):
                    # the very same key bytes are valid for ANOTHER object (declared length = their length) and are used there first
                    other = cls(key_length=len(key))
                    if other.Decrypt(key, other.Encrypt(key, m)) != m:
                        raise Violation("round trip failed", "roundtrip")
                expect_value_error(lambda: ske.Encrypt(key, m), "Encrypt(wrong key length)")
                good = b"\x01" * case["klen"]
                c = ske.Encrypt(good, m)
                expect_value_error(lambda: ske.Decrypt(key, c), "Decrypt(wrong key length)")
            elif kind == "bad_msglen":
                key, m = B(case["key"]), B(case["m"])
                ske = cls(key_length=len(key), message_length=case["declared"])
                expect_value_error(lambda: ske.Encrypt(key, m), "Encrypt(message length != declared)")
            elif kind == "bad_cipherlen":
                key, m = B(case["key"]), B(case["m"])
                c = cls(key_length=len(key)).Encrypt(key, m)
                try:
                    ske = cls(key_length=len(key), cipher_length=case["declared"])
                except ValueError:
                    return   # a declared cipher length no ciphertext can have is refused at construction: also a refusal
                expect_value_error(lambda: ske.Decrypt(key, c), "Decrypt(cipher length != declared)")
            elif kind == "bad_alias":
                expect_value_error(lambda: get(case["alias2"]), "get_symmetric_encryption_implementation(unknown)")
            else:
                raise ValueError(kind)
    except Violation:
        raise
    except Exception as e:
        raise Violation("%s raised %s: %s" % (kind, type(e).__name__, e), "%s:exc:%s" % (kind, type(e).__name__))


@st.composite
def st_case(draw):
    kind = draw(st.sampled_from(["roundtrip"] * 6 + ["history"] * 3 + ["fresh_many", "bad_ctor_keylen", "bad_ctor_cipherlen", "bad_key", "bad_msglen",
                                                    "bad_cipherlen", "bad_alias"]))
    c = {"kind": kind, "alias": draw(st.sampled_from(ALIASES)), "seed": draw(st.integers(0, 2 ** 32))}
    klen = draw(st.sampled_from([16, 24, 32]))
    mlen = draw(st.one_of(st.integers(0, 80), st.sampled_from([0, 1, 15, 16, 17, 31, 32, 33, 47, 48, 64, 4096]),
                          st.integers(0, 5000)))
    if kind == "roundtrip":
        key = draw(st.binary(min_size=klen, max_size=klen))
        key2 = draw(st.one_of(st.binary(min_size=klen, max_size=klen),
                              st.just(bytes([key[0] ^ 1]) + key[1:]), st.just(key[:-1] + bytes([key[-1] ^ 0x80]))))
        c.update(key=key.hex(), key2=key2.hex(), m=draw(st.binary(min_size=mlen, max_size=mlen)).hex(),
                 declare=draw(st.sampled_from([None, "both", "message", "cipher"])))
    elif kind == "history":
        nk = draw(st.integers(2, 3))
        keys = draw(st.lists(st.binary(min_size=klen, max_size=klen), min_size=nk, max_size=nk, unique=True))
        c.update(keys=[k.hex() for k in keys],
                 msgs=[draw(st.binary(min_size=n, max_size=n)).hex() for n in draw(st.lists(st.sampled_from([0, 1, 15, 16, 17, 32, 40]), min_size=1, max_size=3))],
                 ops=draw(st.lists(st.tuples(st.sampled_from(["enc", "dec"]), st.integers(0, 2), st.integers(0, 7)).map(list), min_size=3, max_size=12)))
    elif kind == "fresh_many":
        c.update(key=draw(st.binary(min_size=klen, max_size=klen)).hex(), m=draw(st.binary(max_size=40)).hex(),
                 count=draw(st.sampled_from([300, 520, 1100, 4200, 9000])))
    elif kind == "bad_ctor_keylen":
        c["klen"] = draw(st.sampled_from([0, 1, 8, 15, 17, 20, 23, 25, 31, 33, 48, 64, -16]))
    elif kind == "bad_ctor_cipherlen":
        c["clen"] = draw(st.integers(1, 200).filter(lambda x: x % 16))
    elif kind == "bad_key":
        bad = draw(st.sampled_from([0, 8, 15, 16, 17, 20, 24, 32, 33]).filter(lambda x: x != klen))
        c.update(klen=klen, key=draw(st.binary(min_size=bad, max_size=bad)).hex(),
                 m=draw(st.binary(max_size=40)).hex())
    elif kind == "bad_msglen":
        m = draw(st.binary(max_size=60))
        declared = draw(st.integers(0, 64).filter(lambda x: x != len(m)))
        c.update(key=draw(st.binary(min_size=klen, max_size=klen)).hex(), m=m.hex(), declared=declared)
    elif kind == "bad_cipherlen":
        m = draw(st.binary(max_size=60))
        real = 16 + 16 * (len(m) // 16 + 1)
        declared = draw(st.sampled_from([16, 32, 48, 64, 80, 96, 112]).filter(lambda x: x != real))
        c.update(key=draw(st.binary(min_size=klen, max_size=klen)).hex(), m=m.hex(), declared=declared)
    elif kind == "bad_alias":
        c["alias2"] = draw(st.sampled_from(["AES", "aes-ecb", "HmacPRF", "", "AES-CBC ", "aes cbc", "des-cbc", "BitwiseFPEPRP"]))
    return c


def is_nontrivial(c):
    if c["kind"] != "roundtrip":
        return True
    n = len(c["m"]) // 2
    return (n >= 1 and n % 16 == 0) or n > 16


def classes_of(c):
    out = ["kind:" + c["kind"]]
    if c["kind"] == "roundtrip":
        n = len(c["m"]) // 2
        out.append("mlen:" + ("0" if n == 0 else "aligned" if n % 16 == 0 else "<16" if n < 16 else "unaligned>16"))
        out.append("klen:%d" % (len(c["key"]) // 2))
    if c["kind"] == "history":
        ops = [o[0] for o in c["ops"]]
        out.append("history:keys=%d" % len(c["keys"]))
        if any(a == "dec" and b == "enc" for a, b in zip(ops, ops[1:])):
            out.append("history:encrypt_after_decrypt")
    return out


def shards(tier):
    out = [{"kind": "lengths"}]
    out += [{"kind": "hyp", "i": i} for i in range(4 if tier == "quick" else 12)]
    return out


def _length_cases(tier, seed):
    import hashlib
    reps = 3 if tier == "quick" else 20
    for klen in (16, 24, 32):
        for n in range(0, 81):
            for r in range(reps):
                h = hashlib.sha256(("%d/%d/%d/%d" % (seed, klen, n, r)).encode()).digest()
                key = (h * 2)[:klen]
                key2 = hashlib.sha256(h).digest()[:klen] if r % 2 else bytes([key[0] ^ 1]) + key[1:]
                m = (hashlib.sha256(h + b"m").digest() * 3)[:n]
                yield {"kind": "roundtrip", "alias": ALIASES[(n + r) % len(ALIASES)], "seed": int.from_bytes(h[:4], "big"),
                       "key": key.hex(), "key2": key2.hex(), "m": m.hex(), "declare": [None, "both", "message", "cipher"][(n + r) % 4]}
    # every order of up to 4 operations over {Encrypt, Decrypt} x {key 0, key 1} on one object, followed by a probe of both keys
    import itertools
    alphabet = [("enc", 0), ("enc", 1), ("dec", 0), ("dec", 1)]
    for klen in (16, 24, 32):
        ks = [(hashlib.sha256(b"hk%d/%d/%d" % (seed, klen, i)).digest() * 2)[:klen].hex() for i in range(2)]
        for depth in (1, 2, 3, 4) if (tier != "quick" or klen == 16) else (1, 2, 3):
            for word in itertools.product(alphabet, repeat=depth):
                ops = []
                for n_op, (op, ki) in enumerate(word):
                    ops.append([op, ki, ki if op == "dec" else n_op])   # decrypt the reference ciphertext of that key
                # probes: old ciphertexts still decrypt, new encryptions are under the key passed
                ops += [["dec", 0, 0], ["dec", 1, 1], ["enc", 0, 0], ["enc", 1, 1], ["dec", 0, 1], ["dec", 1, 0]]
                yield {"kind": "history", "alias": "AES-CBC", "seed": seed + depth, "keys": ks, "msgs": [b"first message".hex(), (b"x" * 32).hex()],
                       "ops": ops}
    # declared-length breaches around every declared length 0..48: the empty message/ciphertext, one byte / one block off
    for d in range(0, 49):
        key = (hashlib.sha256(b"contract%d" % d).digest() * 2)[:(16, 24, 32)[d % 3]]
        for actual in sorted({0, 1, d - 1, d + 1, d + 16} - {d, -1}):
            yield {"kind": "bad_msglen", "alias": "AES-CBC", "seed": seed + d, "key": key.hex(), "m": (b"m" * actual).hex(), "declared": d}
        real = 16 + 16 * (d // 16 + 1)
        for declared in sorted({0, 16, real - 16, real + 16, real - 1, real + 1} - {real}):
            if declared >= 0:
                yield {"kind": "bad_cipherlen", "alias": "AES-CBC", "seed": seed + d, "key": key.hex(), "m": (b"m" * d).hex(), "declared": declared}
    for klen in (16, 24, 32):
        yield {"kind": "fresh_many", "alias": "AES-CBC", "seed": seed + klen, "key": (hashlib.sha256(b"fm%d" % klen).digest() * 2)[:klen].hex(),
               "m": b"same message".hex(), "count": 1100}
    # long runs on one object (IV pools and periodic generators repeat only after thousands of calls)
    yield {"kind": "fresh_many", "alias": "AES-CBC", "seed": seed + 5, "key": (hashlib.sha256(b"fm-long").digest())[:16].hex(), "m": b"m".hex(),
           "count": 9000 if tier == "quick" else 20000}
    yield {"kind": "fresh_many", "alias": "AES-CBC", "seed": seed + 6, "key": (hashlib.sha256(b"fm-longer").digest())[:32].hex(), "m": b"".hex(),
           "count": 70000 if tier == "quick" else 140000}


def run_shard(spec, seed, tier):
    import sys
    mod = sys.modules[__name__]
    res = ShardResult()
    if spec["kind"] == "lengths":
        simple.run_enumeration(res, mod, _length_cases(tier, seed))
        res.extra["lengths_bounds"] = "every message length 0..80 x key lengths {16,24,32} x %d keys" % (3 if tier == "quick" else 20)
        res.exhaustive = False
    else:
        hyp.search(res, st_case(), simple.make_body(mod), seed, 1500 if tier == "quick" else 20000)
    return res


def replay(case):
    import sys
    return simple.replay(sys.modules[__name__], case)

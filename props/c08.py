"""C08 — a configuration is either refused loudly or yields a correct scheme."""
import copy
import signal

from hypothesis import strategies as st

from vlib import hyp
from vlib import schemes as S
from vlib.drbg import entropy
from vlib.runner import ShardResult, Violation
from vlib.search_common import innermost_repo_frame

ID = "C08"
LEVEL = "exploration"
RULE = ("a case is (scheme, valid base configuration with 1..3 edits, database valid FOR THAT configuration, entropy seed). Edits: "
        "every length field <- {8,16,20,24,32,48, 0,-1,16.5,'16',None}; block/capacity fields <- {-1,0,1,2,3,4,7,8,63,64,65,100,1024}; "
        "identifier size <- {-1,0,1,2,4,8,16,3.5,'8',None}; DP17 param_L <- {0,1,2,3,2.5}, ratio <- {-0.5,0,0.05,0.2,0.5,0.8,1,1.7}; "
        "primitive names <- other spellings, names of the wrong kind, unknown names, '', None; plus the exhaustive sweep of every "
        "single-key deletion for every scheme. The database takes identifier size, keyword limit and capacities from the edited "
        "configuration; when these are not positive integers no valid database exists and the case is counted as vacuous. "
        "Oracle: an exception in SSEConfig/SSEScheme/KeyGen/EDBSetup/TokenGen/Search, or every search (all keywords + 2 absent, each token used twice, again after the same scheme object encrypted a smaller database, "
        "and for one case in six the serialized index and tokens searched by ANOTHER PROCESS) "
        "equals DB.get(w, empty); for deletions: refused while the configuration is built, or the whole workflow is correct. "
        "Non-trivial = configuration differs from the base and a valid database exists; distinct = distinct (scheme, edits, profile).")
ASSUMPTIONS = ["label/key lengths are >= 8 bytes or outright invalid (the property's own domain restriction)",
               "a per-case alarm of 30 s turns a hang into 'inconclusive' (counted, never a violation)"]

LEN_VALUES = [8, 16, 20, 24, 32, 48, 0, -1, -2, 16.5, "16", None]
CAP_VALUES = [-1, -2, 0, 1, 2, 3, 4, 7, 8, 63, 64, 65, 100, 1024]
IDSZ_VALUES = [-1, 0, 1, 2, 4, 8, 16, 3.5, "8", None]
NAME_VALUES = {
    "ske": ["AES-CBC", "aes_cbc", "AESCBC", "HmacPRF", "BitwiseFPEPRP", "AES", "", None, "sha1"],
    "prf": ["HmacPRF", "hmac-prf", "HMAC_PRF", "AES-CBC", "BitwiseFPEPRP", "Hmac", "", None],
    "prp": ["BitwiseFPEPRP", "bitwise-fpe-prp", "bitwise_fpe_prp", "HmacLubyRackoffPRP", "LubyRackoffPRP", "HmacPRF", "AES-CBC", "fpe", "", None],
    "hash": ["SHA1", "sha1", "sha256", "md5", "sha512", "shake_128", "HmacPRF", "sha3", "", None],
}
FIELDS = {
    "CGKO06.SSE1": {"len": ["param_k", "param_l"], "cap": ["param_s", "param_dictionary_size"], "ske": ["ske1", "ske2"],
                    "prf": ["prf_f"], "prp": ["prp_pi", "prp_psi"]},
    "CGKO06.SSE2": {"len": ["param_k", "param_l"], "cap": ["param_n", "param_max_file_size"], "ske": ["ske"], "prp": ["prp_pi"]},
    "CJJ14.PiBas": {"len": ["param_lambda", "prf_f_output_length"], "ske": ["ske"], "prf": ["prf_f"]},
    "CJJ14.PiPack": {"len": ["param_lambda", "prf_f_output_length"], "cap": ["param_B"], "ske": ["ske"], "prf": ["prf_f"]},
    "CJJ14.PiPtr": {"len": ["param_lambda", "prf_f_output_length"], "cap": ["param_B", "param_b"], "ske": ["ske"], "prf": ["prf_f"]},
    "CJJ14.Pi2Lev": {"len": ["param_lambda", "prf_f_output_length"], "cap": ["param_B", "param_b", "param_B_prime", "param_b_prime"],
                     "ske": ["ske"], "prf": ["prf_f"]},
    "CT14.Pi": {"len": ["param_k", "param_k_prime", "param_l"], "ske": ["ske"], "prf": ["prf_f", "prf_f_prime"]},
    "ANSS16.Scheme3": {"len": ["param_lambda", "param_k", "param_k_prime", "param_l", "param_l_prime"], "ske": ["ske"], "prf": ["prf"]},
    "DP17.Pi": {"len": ["param_lambda"], "ske": ["rnd"], "prf": ["prf_f"], "hash": ["hash_h"]},
}


class _Timeout(Exception):
    pass


def _alarm(signum, frame):
    raise _Timeout()


def base_config(scheme):
    c = S.default_config(scheme)
    if scheme == "CGKO06.SSE1":
        c["param_s"] = 64
        c["param_dictionary_size"] = 16
    return c


def is_pos_int(v, lo=1, hi=None):
    return isinstance(v, int) and not isinstance(v, bool) and v >= lo and (hi is None or v <= hi)


def db_for(case):
    """database valid for case['cfg'] (or None when no valid database can exist / be defined)"""
    scheme, cfg, shape = case["scheme"], case["cfg"], case["shape"]
    idsz = cfg.get("param_identifier_size", 8) if scheme != "CJJ14.PiBas" else 8
    if "param_identifier_size" not in cfg and scheme != "CJJ14.PiBas":
        idsz = S.default_config(scheme).get("param_identifier_size", 8)
    if not is_pos_int(idsz, 1, 64):
        return None, "identifier size is not a positive integer"
    kwlimit = 12
    if scheme in ("CGKO06.SSE1", "CGKO06.SSE2"):
        l = cfg.get("param_l", S.default_config(scheme)["param_l"])
        if not is_pos_int(l):
            return None, "keyword length limit is not a positive integer"
        kwlimit = min(12, l)
    lens = [max(1, n) for n in shape["lens"]]
    M = 256 ** idsz - 1
    lens = [min(n, M) for n in lens]
    if scheme == "CGKO06.SSE1":
        s = cfg.get("param_s", 64)
        if not is_pos_int(s, 2):
            return None, "array size is not an integer >= 2"
        while sum(lens) > s - 1 and lens:
            if lens[-1] > 1:
                lens[-1] -= 1
            else:
                lens.pop()
        if not lens:
            return None, "array cannot hold one posting"
        d = cfg.get("param_dictionary_size", 16)
        if is_pos_int(d):
            lens = lens[:d]
    if scheme == "CJJ14.Pi2Lev":
        vals = [cfg.get(k, S.default_config(scheme)[k]) for k in ("param_B", "param_B_prime", "param_b_prime")]
        if not all(is_pos_int(v) for v in vals):
            return None, "two-level limits are not positive integers"
        limit = vals[0] * vals[1] * vals[2]
        if limit < 2:
            return None, "no list fits the two-level limit"
        lens = [min(n, limit - 1) for n in lens]
    if sum(lens) > M:  # globally distinct identifiers
        lens = lens[:1]
        lens[0] = min(lens[0], M)
    kws = []
    for i in range(len(lens)):
        kw = (b"k%d" % i) if i else b"kw"
        kws.append(kw[:kwlimit].hex())
    spec = {"id_size": idsz, "kws": kws, "lens": lens, "id_mode": shape.get("id_mode", "be"), "id_seed": shape.get("id_seed", 1)}
    db = S.build_db(spec)
    if scheme == "CGKO06.SSE2":
        n = cfg.get("param_n")
        if case.get("scan_n", True):
            pass  # param_n is filled in by the caller (as a user must), see run_case
        else:
            if not is_pos_int(n):
                return None, "file count is not a positive integer"
            if S.distinct_ids(db) > n:
                keep, seen = {}, set()
                for w, ids in db.items():
                    ids2 = [i for i in ids if i in seen or len(seen) < n and not seen.add(i)]
                    if ids2:
                        keep[w] = ids2
                db = keep
                if not db:
                    return None, "file count too small for any posting"
        mfs = cfg.get("param_max_file_size", 16)
        try:
            from schemes.CGKO06.SSE2.config import determine_param_max
            pmax = determine_param_max(mfs)
        except Exception:
            pmax = None
        if pmax is not None and (not isinstance(pmax, int) or pmax < 1):
            return None, "param_max < 1: no identifier may occur at all"
    return db, None


def _config_variants(scheme, cfg):
    """other configurations of the same scheme: paired fields swapped (same totals, another split), and the default one"""
    out = []
    v = copy.deepcopy(cfg)
    swapped = False
    for a, b in (("param_l", "param_l_prime"), ("param_k", "param_k_prime"), ("param_B", "param_b"), ("param_B_prime", "param_b_prime"),
                 ("param_lambda", "param_k")):
        if a in v and b in v and v[a] != v[b]:
            v[a], v[b] = v[b], v[a]
            swapped = True
    out.append(S.default_config(scheme))
    if swapped:
        out.append(v)   # last: whatever the newest configuration object leaves behind is this split
    return out


def run_case(case, res=None):
    scheme = case["scheme"]
    cfg = copy.deepcopy(case["cfg"])
    deletion = case.get("deleted")
    db, why = db_for(case)
    if db is None:
        return "vacuous:" + why
    if scheme == "CGKO06.SSE2" and case.get("scan_n", True) and "param_n" in cfg:
        cfg["param_n"] = S.distinct_ids(db)
    loader = S.load(scheme)
    old = signal.signal(signal.SIGALRM, _alarm)
    signal.alarm(30)
    stage = "SSEConfig"
    try:
        with entropy(case["seed"]):
            try:
                loader.SSEConfig(copy.deepcopy(cfg))
                stage = "SSEScheme"
                sch = loader.SSEScheme(cfg)
            except _Timeout:
                raise
            except Exception as e:
                return "refused_at_build:%s" % type(e).__name__
            try:
                stage = "KeyGen"
                key = sch.KeyGen()
                stage = "EDBSetup"
                edb = sch.EDBSetup(key, db)
                results = []
                tokens = []
                absent = [b"zz", b"kx"]
                for w in list(db.keys()) + [a for a in absent if a not in db]:
                    stage = "TokenGen"
                    tk = sch.TokenGen(key, w)
                    tokens.append((w, tk))
                    stage = "Search"
                    results.append((w, sch.Search(edb, tk).get_result_list()))
                # "every search on the resulting index": the same tokens once more, in reverse order -- after other configuration
                # objects of the same scheme came into being (same lengths split differently, the default configuration) and after the
                # caller went on editing the dictionary it had passed in
                stage = "other configuration objects"
                cfg_as_given = copy.deepcopy(cfg)
                for other in _config_variants(scheme, cfg):
                    try:
                        loader.SSEConfig(copy.deepcopy(other))
                        loader.SSEScheme(other)
                    except Exception:
                        pass
                for k_ in list(cfg):
                    if isinstance(cfg[k_], int) and not isinstance(cfg[k_], bool):
                        cfg[k_] = cfg[k_] + 1 if cfg[k_] % 2 else max(1, cfg[k_] // 2)
                stage = "Search(again)"
                for w, tk in reversed(tokens):
                    results.append((w, sch.Search(edb, tk).get_result_list()))
                # the same scheme object builds an index for a SMALLER database (first posting of every list only, half of the
                # keywords); "every search on the resulting index" still refers to the first index: search it once more
                if len(db) >= 1:
                    stage = "EDBSetup(second database)"
                    small = {w: list(v[:1]) for w, v in list(db.items())[:max(1, len(db) // 2)]}
                    sch.EDBSetup(key, small)
                    for w, _tk in tokens[:4]:
                        stage = "TokenGen"
                        tk2 = sch.TokenGen(key, w)
                        stage = "Search(first index after a second setup)"
                        results.append((w, sch.Search(edb, tk2).get_result_list()))
                wire = None
                if case.get("process_boundary"):
                    stage = "serialize"
                    wire = (edb.serialize().hex(), [tk.serialize().hex() for _, tk in tokens])
            except _Timeout:
                raise
            except Exception as e:
                if deletion:
                    raise Violation("%s: configuration without %r was accepted when built but %s raised %s: %s [%s]" % (
                        scheme, deletion, stage, type(e).__name__, e, innermost_repo_frame(e)),
                        "%s:deletion_not_refused_at_build:%s" % (scheme, deletion))
                return "refused_later:%s:%s" % (stage, type(e).__name__)
    except _Timeout:
        return "timeout:" + stage
    finally:
        signal.alarm(0)
        signal.signal(signal.SIGALRM, old)
    desc = S.DESCS[scheme]
    if wire is not None:
        # the stored index searched by another interpreter (own hash seed, own module state), as a server would
        from vlib import fresh
        try:
            json_cfg = __import__("json").loads(__import__("json").dumps(cfg_as_given))
        except (TypeError, ValueError):
            json_cfg = None
        if json_cfg is not None:
            out = fresh.run_job({"kind": "server_search", "scheme": scheme, "cfg": json_cfg, "edb_hex": wire[0], "tokens": wire[1]},
                                hashseed=1 + case["seed"] % 4000)
            if "error" in out:
                from vlib.runner import HarnessError
                raise HarnessError("server child failed: %s" % out["error"])
            if "results" in out:   # an exception in the other process is a (late) refusal, which the property allows
                for (w, _), got_hex in zip(tokens, out["results"]):
                    got = [bytes.fromhex(h) for h in got_hex]
                    results.append((w, set(got) if desc.result_is_set else got))
    for w, got in results:
        if not S.result_matches(desc, got, db, w):
            edits = case.get("edits") or [["delete", deletion]]
            raise Violation("%s: configuration edits %r were accepted, setup completed, but Search(%r) returned %d ids instead of %d" % (
                scheme, edits, w, len(got) if hasattr(got, "__len__") else -1, len(db.get(w, []))),
                "%s:silent_wrong_result:%s" % (scheme, ",".join(sorted(str(e[0]) + "=" + _vclass(e[1]) for e in edits))))
    return "accepted_correct"


def _vclass(v):
    if isinstance(v, bool) or v is None:
        return repr(v)
    if isinstance(v, int):
        return "neg" if v < 0 else "0" if v == 0 else "pos"
    if isinstance(v, float):
        return "float"
    if isinstance(v, str):
        return "str"
    return type(v).__name__


@st.composite
def st_shape(draw):
    k = draw(st.integers(1, 5))
    return {"lens": [draw(st.sampled_from([1, 1, 2, 3, 4, 5, 7, 8, 9, 12])) for _ in range(k)],
            "id_mode": draw(st.sampled_from(["be", "le"])), "id_seed": draw(st.integers(0, 50))}


@st.composite
def st_case(draw, scheme):
    cfg = base_config(scheme)
    grid_base = draw(st.integers(0, 2)) == 0
    if grid_base:
        # start from a non-default configuration of the supported grid (all cross-field contracts hold), so that accepted
        # non-default configurations - where a wrong answer would be silent - are well represented
        cfg = S.public_cfg(S.DESCS[scheme].st_config(draw))
        if scheme == "CGKO06.SSE1":
            cfg["param_s"] = min(cfg["param_s"], 256)
            cfg["param_dictionary_size"] = 16
        if scheme == "CGKO06.SSE2":
            cfg["param_n"] = 0
    f = FIELDS[scheme]
    cands = []
    for name in f.get("len", []):
        cands.append((name, LEN_VALUES))
    for name in f.get("cap", []):
        cands.append((name, CAP_VALUES))
    if "param_identifier_size" in cfg:
        cands.append(("param_identifier_size", IDSZ_VALUES))
    for kind in ("ske", "prf", "prp", "hash"):
        for name in f.get(kind, []):
            cands.append((name, NAME_VALUES[kind]))
    if scheme == "DP17.Pi":
        cands.append(("param_L", [0, 1, 2, 3, 2.5, -1]))
        cands.append(("param_actual_storage_level_ratio", [-0.5, 0, 0.05, 0.2, 0.5, 0.8, 1, 1.7]))
    nedits = draw(st.sampled_from([0, 0, 1]) if grid_base else st.sampled_from([1, 1, 2, 2, 3]))
    edits = []
    for _ in range(nedits):
        name, values = draw(st.sampled_from(cands))
        v = draw(st.sampled_from(values))
        cfg[name] = v
        edits.append([name, v])
    # coupled valid edit: keep the cross-field contracts so that non-default *accepted* configurations are well represented
    if draw(st.integers(0, 3)) == 0:
        lam = draw(st.sampled_from([16, 24, 32]))
        for a in ("param_lambda", "prf_f_output_length", "param_k", "param_k_prime"):
            if a in cfg and scheme not in ("CT14.Pi",):
                cfg[a] = lam
                edits.append([a, lam])
    scan_n = True
    if scheme == "CGKO06.SSE2" and any(e[0] == "param_n" for e in edits):
        scan_n = False
    shape = draw(st_shape())
    if grid_base:
        edits = [["grid_config", {k: v for k, v in cfg.items() if k.startswith("param")}]] + edits
        th = [t for t in S.DESCS[scheme].thresholds(cfg) if 1 <= t <= 40] if all(
            is_pos_int(cfg.get(k, 1)) for k in ("param_B", "param_b", "param_B_prime", "param_b_prime", "param_L", "param_s")) else []
        if th:
            shape["lens"] = [draw(st.sampled_from(th)) for _ in range(draw(st.integers(1, 4)))]
    return {"scheme": scheme, "cfg": cfg, "edits": edits, "shape": shape, "seed": draw(st.integers(0, 2 ** 32)),
            "scan_n": scan_n}


def deletion_cases(scheme, seed):
    base = base_config(scheme)
    for key in list(base.keys()):
        cfg = copy.deepcopy(base)
        del cfg[key]
        for lens in ([1], [3, 1, 9]):
            yield {"scheme": scheme, "cfg": cfg, "deleted": key, "edits": None, "shape": {"lens": lens, "id_mode": "be", "id_seed": 3},
                   "seed": seed, "scan_n": key != "param_n"}


def body(case, res):
    case.setdefault("process_boundary", case["seed"] % 6 == 0)
    outcome = "violation"
    try:
        outcome = run_case(case, res)
    finally:
        o = outcome.split(":")
        cl = ["scheme:" + case["scheme"], "outcome:" + o[0], case["scheme"] + ":" + o[0]]
        if o[0] == "refused_later":
            cl.append("refused_later_stage:" + o[1])
        if o[0] == "accepted_correct" and case.get("process_boundary"):
            cl.append("index_also_searched_in_another_process")
        nt = not outcome.startswith("vacuous") and not outcome.startswith("timeout")
        res.count([case["scheme"], repr(case.get("edits")), case.get("deleted"), case["shape"]["lens"]], nt, cl,
                  sample={"scheme": case["scheme"], "edits": case.get("edits"), "deleted": case.get("deleted"),
                          "lens": case["shape"]["lens"], "outcome": outcome})


def shards(tier):
    out = [{"kind": "hyp", "scheme": s, "i": 0} for s in S.SCHEMES]
    out.append({"kind": "deletions"})
    out += [{"kind": "single_edit_sweep", "scheme": s} for s in S.SCHEMES]
    if tier == "thorough":
        out += [{"kind": "hyp", "scheme": s, "i": 1} for s in S.SCHEMES]
    return out


def OPTIMIZED_SHARDS(tier):
    """repeated in interpreters started with -O: the complete single-edit and deletion sweeps and 30 % of the generated cases"""
    return ([{"kind": "single_edit_sweep", "scheme": s} for s in S.SCHEMES] + [{"kind": "deletions"}]
            + [{"kind": "hyp", "scheme": s, "i": 0, "_scale": 0.3} for s in S.SCHEMES])


def single_edit_cases(scheme, seed):
    """every single-field edit over the whole value grid (finite, enumerated completely)"""
    f = FIELDS[scheme]
    base = base_config(scheme)
    grid = [(n, LEN_VALUES) for n in f.get("len", [])] + [(n, CAP_VALUES) for n in f.get("cap", [])]
    if "param_identifier_size" in base:
        grid.append(("param_identifier_size", IDSZ_VALUES))
    for kind in ("ske", "prf", "prp", "hash"):
        grid += [(n, NAME_VALUES[kind]) for n in f.get(kind, [])]
    if scheme == "DP17.Pi":
        grid += [("param_L", [0, 1, 2, 3, 2.5, -1]), ("param_actual_storage_level_ratio", [-0.5, 0, 0.05, 0.2, 0.5, 0.8, 1, 1.7])]
    for name, values in grid:
        for v in values:
            cfg = copy.deepcopy(base)
            cfg[name] = v
            for lens in ([1], [2, 5, 1, 8], [12, 12, 3]) + (([70, 3], [130]) if scheme == "CJJ14.Pi2Lev" else ()):
                yield {"scheme": scheme, "cfg": cfg, "edits": [[name, v]], "shape": {"lens": lens, "id_mode": "be", "id_seed": 5},
                       "seed": seed, "scan_n": name != "param_n"}


def run_shard(spec, seed, tier):
    res = ShardResult()
    if spec["kind"] == "hyp":
        n = 300 if tier == "quick" else 3000
        if spec["scheme"] == "CGKO06.SSE2":
            n //= 2
        hyp.search(res, st_case(spec["scheme"]), body, seed, n)
    else:
        first = {}
        gens = []
        if spec["kind"] == "deletions":
            for s in S.SCHEMES:
                gens.append(deletion_cases(s, seed % 10000))
            res.extra["deletion_sweep"] = "every single-key deletion of every scheme's base configuration x 2 databases (complete)"
        else:
            gens.append(single_edit_cases(spec["scheme"], seed % 10000))
            res.extra["single_edit_sweep"] = "every (field, value) of the edit grid applied alone x 3 databases (complete)"
        for g in gens:
            for case in g:
                try:
                    body(case, res)
                except Violation as v:
                    if v.bucket not in first:
                        first[v.bucket] = (case, str(v))
        for bucket, (case, msg) in first.items():
            res.add_violation(case, msg, bucket)
    return res


def replay(case):
    try:
        run_case(case)
    except Violation as v:
        return str(v)
    return None

"""C20 — PickledDict / DBMDict behave like a dict and survive close/reopen."""
import os
import shutil
import tempfile

from hypothesis import strategies as st

from vlib import hyp, simple
from vlib.runner import ShardResult, Violation

ID = "C20"
LEVEL = "exploration"
RULE = ("a case is (class PickledDict|DBMDict, creation via create|from_dict(d) with d a dict or a dict subclass (defaultdict, OrderedDict, one with __missing__), operation history up to 30 (quick) / 50 "
        "(thorough) steps over a 6-key universe): set/get/get-default/delete (present and absent)/in/len/iteration/clear/sync/"
        "invalid values (str,int,None,list,memoryview,array,float,tuple)/mutation of the source dict after from_dict/create-over-existing/open-missing, and "
        "for PickledDict close+open and use-after-close at arbitrary points (DBMDict: one open session, use-after-close once at "
        "the end). Oracle: plain dict model compared after every step. Non-trivial = history has a delete or clear after a set "
        "and (PickledDict) a reopen; distinct = distinct (class, creation, history).")
ASSUMPTIONS = ["only dbm.dumb exists in this image, so DBMDict reopen and path-existence errors are outside the stated scope",
               "a refusal of a closed-dictionary operation is any raised exception (ValueError in practice)",
               "aliasing through mutable bytearray values is not asserted as such: after the caller changed a stored bytearray in place, "
               "whatever the dictionary shows is taken as its contents at that time (and must survive close + open)"]

KEYS = [b"", b"a", b"b", b"\x00", b"key-with-some-length", b"\xff\xfe", b"\x80\x04N.", b"a\x00"]


def B(h):
    return bytes.fromhex(h)


def decode_value(v):
    t = v[0]
    if t == "b":
        return B(v[1])
    if t == "ba":
        return bytearray(B(v[1]))
    if t == "s":
        return v[1]
    if t == "i":
        return v[1]
    if t == "none":
        return None
    if t == "l":
        return [b"x"]
    if t == "mv":
        return memoryview(b"view")
    if t == "arr":
        import array
        return array.array("b", [1, 2, 3])
    if t == "f":
        return 1.5
    if t == "t":
        return (b"a",)
    raise ValueError(t)


class Missing(dict):
    """a dict subclass with a __missing__ hook whose copy() keeps the subclass (like defaultdict / Counter)"""

    def __missing__(self, key):
        return b"MISSING"

    def copy(self):
        return Missing(self)


class Run:
    def __init__(self, case):
        self.case = case
        self.pickled = case["cls"] == "pickled"
        self.dir = tempfile.mkdtemp(prefix="ssepy-c20-")
        self.path = os.path.join(self.dir, "d.dict")
        self.d = None
        self.model = {}
        self.source = None

    def cls(self):
        from data_persistence.persistent_dict import PickledDict, DBMDict
        return PickledDict if self.pickled else DBMDict

    def fail(self, k, msg, bucket):
        op = self.case["ops"][k] if 0 <= k < len(self.case["ops"]) else ("create" if k < 0 else "final")
        raise Violation("[%s] step %d %r: %s" % (self.case["cls"], k, op, msg), self.case["cls"] + ":" + bucket)

    def create(self):
        if self.case.get("init") is None:
            self.d = self.cls().create(self.path)
        else:
            self.source = {B(k): decode_value(v) for k, v in self.case["init"]}
            kind = self.case.get("source_kind", "dict")
            if kind != "dict":
                # the source is a dict all right, but of a subclass (what json/collections hand out): the persistent dictionary
                # must still behave like a plain dict
                import collections
                self.source = {"defaultdict": lambda s: collections.defaultdict(bytes, s), "ordered": collections.OrderedDict,
                               "missing_hook": Missing}[kind](self.source)
            self.d = self.cls().from_dict(self.source, self.path)
            self.model = {k: bytes(v) for k, v in self.source.items()}

    def compare(self, k, why):
        d, m = self.d, self.model
        if len(d) != len(m):
            self.fail(k, "%s: len %d, model %d" % (why, len(d), len(m)), "state_len:" + why)
        keys = list(d)
        if self.pickled:
            if keys != list(m):
                self.fail(k, "%s: iteration order %r, model %r" % (why, keys, list(m)), "state_iter:" + why)
        elif sorted(keys) != sorted(m) or len(keys) != len(set(keys)):
            self.fail(k, "%s: keys %r, model %r" % (why, sorted(keys), sorted(m)), "state_iter:" + why)
        for key in KEYS:
            if (key in d) != (key in m):
                self.fail(k, "%s: %r in d = %r, model %r" % (why, key, key in d, key in m), "state_in:" + why)
            if key in m:
                if d[key] != m[key] or d.get(key) != m[key]:
                    self.fail(k, "%s: d[%r] = %r, model %r" % (why, key, d[key], m[key]), "state_val:" + why)
            else:
                if d.get(key) is not None or d.get(key, b"dflt") != b"dflt":
                    self.fail(k, "%s: get of absent %r does not return the default" % (why, key), "state_get:" + why)
                try:
                    r = d[key]
                except KeyError:
                    pass
                else:
                    self.fail(k, "%s: d[%r] of an absent key returned %r instead of raising KeyError" % (why, key, r), "state_missing_key:" + why)
        if len(d) != len(m):
            self.fail(k, "%s: len %d after the reads, model %d (a read changed the dictionary)" % (why, len(d), len(m)), "state_len_after_reads:" + why)

    def must_raise(self, k, fn, what, exc=Exception):
        try:
            r = fn()
        except exc:
            return
        except Exception as e:
            self.fail(k, "%s raised %s instead of %s" % (what, type(e).__name__, exc.__name__), "wrongexc:" + what)
        self.fail(k, "%s did not raise (returned %r)" % (what, r), "noraise:" + what)

    def closed_ops(self, k):
        d = self.d
        d.close()
        key = KEYS[1]
        self.must_raise(k, lambda: d[key], "closed:get", ValueError)
        self.must_raise(k, lambda: d.__setitem__(key, b"v"), "closed:set", ValueError)
        self.must_raise(k, lambda: d.__delitem__(key), "closed:del", ValueError)
        self.must_raise(k, lambda: len(d), "closed:len", ValueError)
        self.must_raise(k, lambda: list(d), "closed:iter", ValueError)
        self.must_raise(k, lambda: key in d, "closed:in", ValueError)
        self.must_raise(k, lambda: d.get(key), "closed:get_default", ValueError)
        self.must_raise(k, lambda: d.clear(), "closed:clear", ValueError)
        # a second wave: nothing above may have silently re-opened the dictionary
        self.must_raise(k, lambda: len(d), "closed:len_after_clear", ValueError)
        self.must_raise(k, lambda: d.__setitem__(key, b"v"), "closed:set_after_clear", ValueError)
        self.must_raise(k, lambda: d.sync(), "closed:sync")
        d.close()  # closing twice is allowed

    def step(self, k, op):
        d, m = self.d, self.model
        t = op[0]
        if t == "set":
            key, v = KEYS[op[1]], op[2]
            val = decode_value(v)
            if v[0] in ("b", "ba"):
                d[key] = val
                m[key] = bytes(val)
            else:
                self.must_raise(k, lambda: d.__setitem__(key, val), "set_invalid_value", TypeError)
        elif t == "mutate_value":
            # the caller changes a stored bytearray in place through the reference the dictionary hands out.  Whether the dictionary
            # sees that is its business (an in-memory dict does); what it shows right afterwards is "the contents at this time", and
            # those are what a later close + open must bring back
            key = KEYS[op[1]]
            if key in m:
                obj = d[key]
                if isinstance(obj, bytearray):
                    if op[2] == "extend":
                        obj.extend(b"!")
                    elif op[2] == "first" and len(obj):
                        obj[0:1] = b"z"
                    else:
                        obj.reverse()
                    m[key] = bytes(d[key])
        elif t == "get":
            key = KEYS[op[1]]
            if key in m:
                if d[key] != m[key]:
                    self.fail(k, "d[%r] = %r, model %r" % (key, d[key], m[key]), "get")
            else:
                self.must_raise(k, lambda: d[key], "get_missing", KeyError)
        elif t == "getd":
            key = KEYS[op[1]]
            got = d.get(key, b"default")
            if got != m.get(key, b"default"):
                self.fail(k, "get(%r, default) = %r, model %r" % (key, got, m.get(key, b"default")), "getd")
        elif t == "del":
            key = KEYS[op[1]]
            if key in m:
                del d[key]
                del m[key]
            else:
                self.must_raise(k, lambda: d.__delitem__(key), "del_missing", KeyError)
        elif t == "clear":
            d.clear()
            m.clear()
        elif t == "sync":
            d.sync()
        elif t == "reopen":
            d.close()
            self.d = self.cls().open(self.path)
        elif t == "closed":
            self.closed_ops(k)
            self.d = self.cls().open(self.path)
        elif t == "ctx":
            with d as dd:
                if len(dd) != len(m):
                    self.fail(k, "len inside with-block differs", "ctx")
            self.must_raise(k, lambda: len(d), "closed:after_with", ValueError)
            self.d = self.cls().open(self.path)
        elif t == "mutate_source":
            if self.source is not None:
                key = KEYS[op[1]]
                if op[2] == "del":
                    self.source.pop(key, None)
                elif op[2] == "clear":
                    self.source.clear()
                else:
                    self.source[key] = b"changed-in-source"
        elif t == "create_existing":
            if self.pickled:
                self.must_raise(k, lambda: self.cls().create(self.path), "create_over_existing", FileExistsError)
                if self.case.get("init") is None or True:
                    self.must_raise(k, lambda: self.cls().from_dict({b"q": b"r"}, self.path), "from_dict_over_existing", FileExistsError)
        elif t == "open_missing":
            missing = os.path.join(self.dir, "nope.dict")
            self.must_raise(k, lambda: self.cls().open(missing), "open_missing", FileNotFoundError)
            if os.path.exists(missing):
                self.fail(k, "open() of a missing path created it", "open_missing_created")
        else:
            raise ValueError(t)

    def close(self):
        try:
            if self.d is not None:
                self.d.close()
        except Exception:
            pass
        shutil.rmtree(self.dir, ignore_errors=True)


def run_case(case):
    r = Run(case)
    k = -1
    try:
        r.create()
        r.compare(-1, "after_create")
        for k, op in enumerate(case["ops"]):
            r.step(k, op)
            r.compare(k, "after_" + op[0])
        k = len(case["ops"])
        if r.pickled:
            r.d.close()
            r.d = r.cls().open(r.path)
            r.compare(k, "final_reopen")
        r.closed_ops(k)
        r.d = None
    except Violation:
        raise
    except Exception as e:
        op = case["ops"][k] if 0 <= k < len(case["ops"]) else ("create" if k < 0 else "final")
        raise Violation("[%s] step %d %r raised %s: %s" % (case["cls"], k, op, type(e).__name__, e),
                        "%s:exc:%s:%s" % (case["cls"], op[0] if isinstance(op, list) else op, type(e).__name__))
    finally:
        r.close()


# ---------------------------------------------------------------------------------------------------------
@st.composite
def st_value(draw):
    t = draw(st.sampled_from(["b"] * 8 + ["ba", "ba", "ba", "s", "i", "none", "l", "mv", "arr", "f", "t"]))
    if t in ("b", "ba"):
        import pickle
        special = [b"", b"\x00", b"\x80\x04N.", pickle.dumps(7, 4), pickle.dumps(b"other", 4), pickle.dumps(None, 2), b"\x80\x04\x95garbage.",
                   b"\x80\x03.", b".", b"\x80", b"None", b"\xff" * 8, b" ", b"\n", b"0", b"\x00" * 16]
        return [t, draw(st.one_of(st.binary(max_size=40), st.sampled_from(special), st.sampled_from(special))).hex()]
    if t == "s":
        return ["s", draw(st.sampled_from(["", "text"]))]
    if t == "i":
        return ["i", draw(st.integers(0, 255))]
    return [t]


@st.composite
def st_op(draw, pickled):
    kinds = ["set"] * 6 + ["get"] * 3 + ["getd", "del", "del", "del", "clear", "sync", "mutate_source", "open_missing"]
    if pickled:
        kinds += ["reopen", "reopen", "closed", "ctx", "create_existing", "mutate_value", "mutate_value"]
    t = draw(st.sampled_from(kinds))
    ki = draw(st.integers(0, len(KEYS) - 1))
    if t == "set":
        return ["set", ki, draw(st_value())]
    if t in ("get", "getd", "del"):
        return [t, ki]
    if t == "mutate_value":
        return [t, ki, draw(st.sampled_from(["extend", "first", "reverse"]))]
    if t == "mutate_source":
        return [t, ki, draw(st.sampled_from(["set", "del", "clear"]))]
    return [t]


@st.composite
def st_case(draw, max_ops=30):
    pickled = draw(st.booleans())
    c = {"cls": "pickled" if pickled else "dbm"}
    if draw(st.booleans()):
        kis = draw(st.lists(st.integers(0, len(KEYS) - 1), unique=True, max_size=len(KEYS)))
        c["init"] = [[KEYS[i].hex(), ["b", draw(st.one_of(st.binary(max_size=20), st.sampled_from([b"", b"\x80\x04N.", b"\x80\x04K\x07.", b"."]))).hex()]]
                     for i in kis]
        c["source_kind"] = draw(st.sampled_from(["dict", "dict", "defaultdict", "ordered", "missing_hook"]))
    else:
        c["init"] = None
    c["ops"] = draw(st.lists(st_op(pickled), min_size=1, max_size=max_ops))
    if pickled and draw(st.integers(0, 4)) == 0:
        # a stored bytearray is changed in place while the dictionary is otherwise untouched since it was last written out
        ki = draw(st.integers(0, len(KEYS) - 1))
        pat = [["set", ki, ["ba", draw(st.binary(min_size=1, max_size=8)).hex()]], [draw(st.sampled_from(["reopen", "sync"]))],
               ["mutate_value", ki, draw(st.sampled_from(["extend", "first", "reverse"]))], ["reopen"], ["get", ki]]
        at = draw(st.integers(0, len(c["ops"])))
        c["ops"] = c["ops"][:at] + pat + c["ops"][at:]
    return c


def _flags(c):
    ops = [o[0] for o in c["ops"]]
    removal_after_set = False
    seen_set = c["init"] not in (None, [])
    for o in ops:
        if o == "set":
            seen_set = True
        if o in ("del", "clear") and seen_set:
            removal_after_set = True
    reopen = any(o in ("reopen", "closed", "ctx") for o in ops)
    return removal_after_set, reopen


def is_nontrivial(c):
    rem, reopen = _flags(c)
    return rem and (reopen or c["cls"] == "dbm")


def classes_of(c):
    rem, reopen = _flags(c)
    out = ["cls:" + c["cls"], "create:" + ("from_dict" if c["init"] is not None else "create")]
    if c["init"] is not None:
        out.append("from_dict_source:" + c.get("source_kind", "dict"))
    if rem:
        out.append("removal_after_set")
    if reopen:
        out.append("has_reopen")
    ops = [o[0] for o in c["ops"]]
    if c["init"] is not None and "mutate_source" in ops:
        out.append("source_mutated_after_from_dict")
    if any(o[0] == "set" and o[2][0] not in ("b", "ba") for o in c["ops"]):
        out.append("has_invalid_value")
    return out


def shards(tier):
    return [{"kind": "hyp", "i": i} for i in range(8 if tier == "quick" else 16)]


def run_shard(spec, seed, tier):
    import sys
    mod = sys.modules[__name__]
    res = ShardResult()
    if tier == "quick":
        hyp.search(res, st_case(30), simple.make_body(mod), seed, 1000)
    else:
        hyp.search(res, st_case(50), simple.make_body(mod), seed, 12000)
    return res


def replay(case):
    import sys
    return simple.replay(sys.modules[__name__], case)

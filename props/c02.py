"""C02 — searching a keyword that is not in the database returns an empty result, without raising."""
from vlib import search_props as SP

ID = "C02"
LEVEL = "exploration"
RULE = ("same (scheme, configuration, key, database) generator as C01; for every case up to ~20 absent but valid keywords are "
        "searched: w[:-1], w[1:], w+NUL, w+w, w+'x', first/last byte with one flipped bit, case-swapped, the maximum-length "
        "keyword and 3 hashed random ones, interleaved with searches for present keywords; the empty byte string (a loud refusal is "
        "tolerated, a non-empty answer is not); the first keyword again after the same scheme object and key have encrypted a second "
        "database without it; that keyword searched alternately on TWO LIVE indexes built by one scheme object and key (stored in one, absent from the other); and, for databases of one-byte keywords, every other one-byte keyword. Oracle: the call returns, the "
        "result has the scheme's result type and length 0. Every case is non-trivial (it always contains adversarially close "
        "keywords; the per-family counts are in `classes`); distinct = distinct (scheme, config, sorted length profile, id layout).")
ASSUMPTIONS = ["absent keywords are themselves valid keywords (non-empty, no leading NUL, within the length limit)",
               "os.urandom / random are a seeded DRBG inside the check process"]


def shards(tier):
    return SP.make_shards(tier)


def run_shard(spec, seed, tier):
    return SP.run_shard_generic(spec, seed, tier, "absent")


def replay(case):
    return SP.replay_generic(case, "absent")

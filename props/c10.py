"""C10 — the server keeps each service in a forward-only, write-once state machine."""
import asyncio
import contextlib
import hashlib
import itertools
import json
import pickle

from hypothesis import strategies as st

from vlib import hyp
from vlib import schemes as S
from vlib.drbg import entropy
from vlib.runner import HarnessError, ShardResult, Violation

ID = "C10"
LEVEL = "exploration"
RULE = ("a case is a history over one service id on strictly consecutive connections, drawn from {connect, config(c1|c2), "
        "upload(e1|e2), search(t_w), message with a foreign sid, message of unknown type, close, reconnect, reconnect inside the server's cleanup pause (the pause is a gate owned by the driver), server restart, two requests pipelined on one connection, a hard restart (every server module back to its import-time state), a complete workflow of a companion service whose id shares a 40-character prefix or is the same hex string in upper case; search messages with, without and with a non-bytes token_digest field, a configuration or index upload during which the n-th file-system mutation the server performs fails once with a survivable OSError (ENOSPC / EIO; a failing write stores half of its data first)}; c1/c2 are valid "
        "configurations differing in identifier size, e1/e2 index two databases that share keywords but not postings, so answering "
        "from the wrong config or index changes results. Executed over real loopback websockets against the real handler; the "
        "observable trace (init-echo state, ok / refused, result payloads) must equal the trace of a 3-state reference model "
        "(refusal = {ok: False} reply or closure of the connection). Hypothesis draws histories up to 12 (quick) / 25 (thorough) "
        "events; all histories of depth <= 4 (quick) / <= 5 (thorough) over {config1, config2, upload1, upload2, search, "
        "reconnect, reconnect_early} are enumerated. Non-trivial = at least one refused request and one reconnect after an accepted transition; "
        "distinct = distinct (scheme, history).")
ASSUMPTIONS = ["control messages ('wait for the previous connection') are informational and skipped when matching the trace",
               "the server's cleanup pause is a gate released by the driver: after every closure (normal reconnect) or only after the next init echo (early reconnect); connections are strictly consecutive (overlap is C12's subject)",
               "a request that met an injected I/O error and was not acknowledged may have taken effect completely or not at all: the state reported by the next connection (after the server's cleanup ran) decides, the model adopts it, and everything after it - refusals, results from the accepted index, the stored artefacts - is checked against the adopted state; an acknowledged request counts as accepted",
               "a promised outcome (reply or closure) that does not arrive within 15 s is reported as a harness error, not a violation"]

SCHEMES = ["CJJ14.PiPack", "CJJ14.PiPtr", "DP17.Pi", "CJJ14.PiBas"]
ALPHABET = ["config1", "config2", "upload1", "upload2", "search", "reconnect", "reconnect_early"]


def fixtures(scheme, seed):
    """two configs, two indexes, tokens; everything the client side would produce"""
    c1 = S.default_config(scheme)
    c2 = S.default_config(scheme)
    if "param_identifier_size" in c1:
        c1["param_identifier_size"] = 4
        c2["param_identifier_size"] = 2
    else:
        c2["param_lambda"] = 16
        c2["prf_f_output_length"] = 16
    if "param_B" in c1:
        c1["param_B"] = 2
        c2["param_B"] = 2
    if "param_b" in c1:
        c1["param_b"] = 2
        c2["param_b"] = 2
    c1["salt"] = "aa"
    c2["salt"] = "bb"
    db1 = {b"alpha": [bytes([1, 2, 3, i + 1]) for i in range(5)], b"beta": [bytes([9, 9, 9, 9])]}
    db2 = {b"alpha": [bytes([7, 7, 7, i + 1]) for i in range(3)], b"beta": [bytes([8, 8, 8, 1]), bytes([8, 8, 8, 2])], b"gamma": [bytes([5, 5, 5, 5])]}
    loader = S.load(scheme)
    with entropy(seed):
        sch = loader.SSEScheme(dict(c1))
        key = sch.KeyGen()
        e1 = sch.EDBSetup(key, db1).serialize()
        e2 = sch.EDBSetup(key, db2).serialize()
        toks = {w: sch.TokenGen(key, w).serialize() for w in (b"alpha", b"beta", b"gamma", b"absent")}
    return {"c": {1: c1, 2: c2}, "e": {1: e1, 2: e2}, "tok": toks, "loader": loader}


def local_answer(fx, cfg, edb_raw, tok_raw):
    """what a correct server holding (cfg, edb) answers; None when the computation itself fails"""
    loader = fx["loader"]
    try:
        c = json.loads(json.dumps(cfg))
        sch = loader.SSEScheme(c)
        cobj = loader.SSEConfig(c)
        edb = loader.SSEEncryptedDatabase.deserialize(edb_raw, cobj)
        tok = loader.SSEToken.deserialize(tok_raw, cobj)
        return sch.Search(edb, tok).get_result_list()
    except Exception:
        return None


class Driver:
    def __init__(self, scheme, fx, sid, srv):
        self.scheme, self.fx, self.sid, self.srv = scheme, fx, sid, srv
        self.rc = None
        self.state, self.cfg, self.edb = 0, None, None
        self.trace = []
        self.refused = 0
        self.reply_may_be_lost = False
        self.reconnects_after_accept = 0
        self.accepted_since_connect = False
        self.ever_accepted = False
        self.gate = None          # the server's cleanup pause, released by the driver (set by run_history)
        self.unsettled = 0        # closed connections whose cleanup pause has not been released yet
        self.early_reconnects = 0
        self.companion = None

    def fail(self, msg, bucket):
        raise Violation("%s: %s | history so far: %r" % (self.scheme, msg, self.trace), "%s:%s" % (self.scheme, bucket))

    async def next_msg(self):
        while True:
            m = await self.rc.recv(timeout=15)
            if m["type"] == "control":
                continue
            if m["type"] == "__timeout__":
                raise HarnessError("promised outcome did not arrive within 15 s (history %r)" % (self.trace,))
            return m

    async def settle(self):
        """let the cleanup pause of every closed connection elapse (the pause is a gate owned by this driver)"""
        while self.unsettled > 0:
            for _ in range(600):
                if self.gate.pending:
                    break
                await asyncio.sleep(0.005)
            if not self.gate.release_one():
                self.unsettled = 0  # nothing parked: that connection never reached the cleanup (e.g. refused before registration)
                break
            self.unsettled -= 1
            await asyncio.sleep(0)

    def note_closed(self):
        if self.rc is not None:
            self.unsettled += 1
        self.rc = None

    async def ensure_connected(self, early=False, either=None):
        """either = {state: (cfg, edb)}: the previous request met an I/O error, so it took effect completely or not at all; the
        init echo tells which, and the model adopts it"""
        from vlib import rig
        if self.rc is not None and self.rc.ws is not None and not self.rc.ws.closed:
            return
        if self.rc is not None:
            self.note_closed()
        if not early:
            await self.settle()
        elif self.unsettled:
            self.early_reconnects += 1
        if self.ever_accepted:
            self.reconnects_after_accept += 1
        self.rc = await rig.RawClient(self.srv.uri, self.sid).connect()
        m = await self.next_msg()
        if m["type"] == "__closed__":
            self.fail("a new connection was closed (code %s) before the init echo; model state %d" % (m.get("code"), self.state),
                      "handshake_refused")
        if m["type"] != "init" or not isinstance(m.get("decoded"), dict) or m["decoded"].get("ok") is not True:
            self.fail("first message on a new connection is %r, expected an ok init echo" % ({k: m.get(k) for k in ("type", "decoded")},),
                      "bad_init_echo")
        if either is not None and m["decoded"].get("state") in either and not isinstance(m["decoded"].get("state"), bool):
            self.state = m["decoded"]["state"]
            self.cfg, self.edb = either[self.state]
            if self.state > 0:
                self.ever_accepted = True
        if m["decoded"].get("state") != self.state:
            self.fail("init echo reports state %r, the accepted requests so far imply state %d%s" % (
                m["decoded"].get("state"), self.state, " (reconnect within the server's cleanup pause)" if early and self.unsettled else ""),
                "init_state_mismatch")
        await self.settle()  # now the pause elapses; a connection that was told to wait becomes active

    async def drain_and_close(self):
        if self.rc is None:
            return
        ws = self.rc.ws
        if ws is not None and not ws.closed:
            close_task = asyncio.ensure_future(ws.close())
            extra = []
            while True:
                m = await self.rc.recv(timeout=15)
                if m["type"] in ("__closed__", "__timeout__"):
                    break
                if m["type"] != "control":
                    extra.append(m)
            await close_task
            if extra:
                self.fail("unexpected extra message(s) on the connection: %r" % [(m.get("type"), m.get("decoded")) for m in extra],
                          "unexpected_message")
        self.note_closed()

    async def expect_refusal(self, what, reply_type):
        m = await self.next_msg()
        self.refused += 1
        if m["type"] == "__closed__":
            self.note_closed()
            return
        if m["type"] == reply_type and isinstance(m.get("decoded"), dict) and m["decoded"].get("ok") is False:
            return
        if reply_type == "result" and m["type"] == "result":
            with contextlib.suppress(Exception):
                d = pickle.loads(m["content"])
                if isinstance(d, dict) and d.get("ok") is False:
                    return
        self.fail("%s must be refused in state %d but the server answered %r" % (what, self.state, (m.get("type"), m.get("decoded"))),
                  "not_refused:" + what.split("(")[0])

    async def step(self, ev):
        self.trace.append(ev)
        kind = ev[0]
        if kind == "reconnect":
            await self.drain_and_close()
            await self.ensure_connected()
            return
        if kind == "reconnect_early":
            # the new connection arrives while the server is still inside the cleanup pause of the previous one
            await self.drain_and_close()
            await self.ensure_connected(early=True)
            return
        if kind == "close":
            await self.drain_and_close()
            return
        if kind == "companion":
            # another service whose id shares a long prefix with this one goes through its own workflow on the same server;
            # nothing of it may leak into this service (and vice versa)
            await self.drain_and_close()
            await self.settle()
            twin = len(ev) > 1 and ev[1] == "case"
            if self.companion is None:
                self.companion = {}
            if twin not in self.companion:
                # either an id sharing a 40-character prefix, or the SAME hex digits in upper case (a different string, hence a
                # different service)
                comp_sid = self.sid.upper() if twin else self.sid[:40] + hashlib.sha256(b"companion" + self.sid.encode()).hexdigest()[:24]
                self.companion[twin] = Driver(self.scheme, self.fx, comp_sid, self.srv)
                self.companion[twin].gate = self.gate
                self.companion[twin].trace = self.trace
            c = self.companion[twin]
            for ev2 in ([["config", 2], ["upload", 2]] if c.state == 0 else []) + [["search", "alpha"], ["search", "beta"]]:
                await Driver.step(c, list(ev2))
                self.trace.pop()  # the companion's own steps are not part of this service's history
            await c.drain_and_close()
            await c.settle()
            self.unsettled = 0
            return
        if kind == "pipeline":
            # two requests written back to back on one connection, BEFORE the outcome of the first is read; the server must handle
            # them in order: the trace is the one of the two requests sent one after the other
            await self.ensure_connected()
            evs = [list(e) for e in ev[1]]
            payloads = []
            for e in evs:
                if e[0] == "config":
                    payloads.append(("config", pickle.dumps(self.fx["c"][e[1]]), {}))
                elif e[0] == "upload":
                    payloads.append(("upload_edb", self.fx["e"][e[1]], {}))
                else:
                    tok = self.fx["tok"][e[1].encode()]
                    payloads.append(("token", tok, {"token_digest": hashlib.sha256(tok).digest()}))
            for t, c, extra in payloads:
                await self.rc.send(t, c, **extra)
            # the server may refuse by closing the connection, and a reply that was queued for an EARLIER request of the same
            # pipeline can be lost with it (the property promises state and answers, not delivery on a connection the server
            # drops): when the model refuses a later request, closure is accepted in place of the earlier reply -- the model
            # still advances, and the next init echo must report the advanced state
            st, cfg_, edb_, refusing = self.state, self.cfg, self.edb, []
            for e in evs:
                if e[0] == "config":
                    ok = st == 0
                    if ok:
                        st, cfg_ = 1, self.fx["c"][e[1]]
                elif e[0] == "upload":
                    ok = st == 1
                    if ok:
                        st, edb_ = 2, self.fx["e"][e[1]]
                else:
                    # a search is answered only if the accepted index can be searched under the accepted configuration at all
                    ok = st == 2 and local_answer(self.fx, cfg_, edb_, self.fx["tok"][e[1].encode()]) is not None
                refusing.append(not ok)
            for j, e in enumerate(evs):
                if self.rc is None:
                    break  # the connection was dropped by a refusal: later requests of the pair are never handled
                self.trace.append(["(pipelined)"] + e)
                self.reply_may_be_lost = any(refusing[j + 1:])
                try:
                    await self.expect_outcome(e)
                finally:
                    self.reply_may_be_lost = False
            return
        if kind == "faulty":
            await self.faulty(ev)
            return
        if kind == "restart":
            await self.drain_and_close()
            await self.settle()
            await self.srv.restart(hard=bool(ev[1]) if len(ev) > 1 else False)
            await self.ensure_connected()
            return
        await self.ensure_connected()
        if kind == "config":
            await self.rc.send("config", pickle.dumps(self.fx["c"][ev[1]]))
            await self.expect_outcome(ev)
        elif kind == "upload":
            await self.rc.send("upload_edb", self.fx["e"][ev[1]])
            await self.expect_outcome(ev)
        elif kind == "search":
            tok = self.fx["tok"][ev[1].encode()]
            variant = ev[2] if len(ev) > 2 else None
            # the digest is an optional field the server only echoes: it may be missing, or not be a byte string
            extra = {} if variant == "nodigest" else {"token_digest": hashlib.sha256(tok).hexdigest()} if variant == "strdigest" else \
                {"token_digest": hashlib.sha256(tok).digest()}
            await self.rc.send("token", tok, **extra)
            await self.expect_outcome(ev)
        elif kind == "foreign":
            other = hashlib.sha256(self.sid.encode()).hexdigest()
            payload = {"config": pickle.dumps(self.fx["c"][2]), "upload_edb": self.fx["e"][2], "token": self.fx["tok"][b"alpha"]}[ev[1]]
            await self.rc.send(ev[1], payload, sid=other)
            # ignored by a correct server: nothing to wait for; a reply or a state change shows up later in the trace
        elif kind == "unknown":
            await self.rc.send(ev[1], b"payload")
            # whether the server ignores it or drops the connection, the state must not change; synchronise on closure if it comes
            m = await self.rc.recv(timeout=1.0)
            while m["type"] == "control":  # informational ('wait for the previous connection'): not the outcome of this message
                m = await self.rc.recv(timeout=1.0)
            if m["type"] == "__closed__":
                self.note_closed()
            elif m["type"] not in ("__timeout__", "control"):
                self.fail("a message of unknown type %r was answered with %r" % (ev[1], (m.get("type"), m.get("decoded"))), "unknown_type_answered")
        else:
            raise ValueError(kind)

    async def faulty(self, ev):
        """["faulty", "config"|"upload", i, n]: the request is handled while the n-th file-system mutation the server performs for it
        fails with a survivable OSError (full disk).  A request the model refuses performs no mutation and is refused as usual.  For a
        request the model accepts: without a fired fault the usual acceptance is demanded; with one, the request is EITHER refused (or
        the connection dropped) OR acknowledged, and the state found on the next connection -- after the server's cleanup ran --
        must be the old one or the complete new one (state AND artefact); the model adopts what the init echo reports and every later
        event is checked against it."""
        from vlib import ioerr, rig
        _, req, i, n = ev
        await self.ensure_connected()
        would_accept = (req == "config" and self.state == 0) or (req == "upload" and self.state == 1)
        inj = ioerr.injector()
        inj.arm(rig.modules().sse_dir, n)
        try:
            if req == "config":
                await self.rc.send("config", pickle.dumps(self.fx["c"][i]))
            else:
                await self.rc.send("upload_edb", self.fx["e"][i])
            if not would_accept:
                await self.expect_outcome([req, i])
                return
            m = await self.next_msg()
        finally:
            inj.disarm()
        self.io_ops = max(getattr(self, "io_ops", 0), inj.counter)
        rtype = "config" if req == "config" else "upload_edb"
        acked = m["type"] == rtype and isinstance(m.get("decoded"), dict) and m["decoded"].get("ok") is True
        new = (1, self.fx["c"][i], None) if req == "config" else (2, self.cfg, self.fx["e"][i])
        if not inj.fired:
            if not acked:
                self.fail("%s in state %d must be accepted (no fault fired), got %r" % (req, self.state, (m.get("type"), m.get("decoded"), m.get("code"))),
                          "%s_not_accepted" % req)
            self.state, self.cfg, self.edb = new
            self.ever_accepted = True
            return
        self.faults_fired = getattr(self, "faults_fired", 0) + 1
        self.trace.append(["(fault fired)", list(inj.fired)])
        if acked:
            # acknowledged in spite of the fault: then it is accepted, completely
            self.state, self.cfg, self.edb = new
            self.ever_accepted = True
            return
        if m["type"] == "__closed__":
            self.note_closed()
        elif not (m["type"] == rtype and isinstance(m.get("decoded"), dict) and m["decoded"].get("ok") is False):
            self.fail("a %s request that met an I/O error was answered with %r" % (req, (m.get("type"), m.get("decoded"))), "fault_bad_reply")
        self.refused += 1
        await self.drain_and_close()
        await self.ensure_connected(either={self.state: (self.cfg, self.edb), new[0]: (new[1], new[2])})

    async def expect_outcome(self, ev):
        """reads and checks the outcome of one already-sent request against the model (and advances the model)"""
        kind = ev[0]
        if kind == "config":
            i = ev[1]
            if self.state == 0:
                m = await self.next_msg()
                if m["type"] == "__closed__" and self.reply_may_be_lost:
                    self.note_closed()
                elif m["type"] != "config" or not isinstance(m.get("decoded"), dict) or m["decoded"].get("ok") is not True:
                    self.fail("config upload in state 0 must be accepted, got %r" % ((m.get("type"), m.get("decoded"), m.get("code")),),
                              "config_not_accepted")
                self.state, self.cfg = 1, self.fx["c"][i]
                self.ever_accepted = True
            else:
                await self.expect_refusal("config(c%d)" % i, "config")
        elif kind == "upload":
            i = ev[1]
            if self.state == 1:
                m = await self.next_msg()
                if m["type"] == "__closed__" and self.reply_may_be_lost:
                    self.note_closed()
                elif m["type"] != "upload_edb" or not isinstance(m.get("decoded"), dict) or m["decoded"].get("ok") is not True:
                    self.fail("index upload in state 1 must be accepted, got %r" % ((m.get("type"), m.get("decoded"), m.get("code")),),
                              "upload_not_accepted")
                self.state, self.edb = 2, self.fx["e"][i]
                self.ever_accepted = True
            else:
                await self.expect_refusal("upload(e%d)" % i, "upload_edb")
        elif kind == "search":
            w = ev[1].encode()
            tok = self.fx["tok"][w]
            variant = ev[2] if len(ev) > 2 else None
            digest = None if variant == "nodigest" else hashlib.sha256(tok).hexdigest() if variant == "strdigest" else hashlib.sha256(tok).digest()
            want = local_answer(self.fx, self.cfg, self.edb, tok) if self.state == 2 else None
            if self.state == 2 and want is not None:
                m = await self.next_msg()
                if m["type"] == "__closed__" and self.reply_may_be_lost:
                    self.note_closed()
                    return
                if m["type"] != "result":
                    self.fail("search in the ready state got %r instead of a result" % ((m.get("type"), m.get("decoded"), m.get("code")),),
                              "no_result_in_ready_state")
                try:
                    got = pickle.loads(m["content"])
                except Exception:
                    got = None
                if got != want:
                    self.fail("search result %r differs from Search over the ACCEPTED config and index %r" % (got, want), "result_from_wrong_index")
                if m.get("token_digest") != digest:
                    self.fail("result does not echo the token digest field (%r sent, %r echoed)" % (digest, m.get("token_digest")), "token_digest")
            else:
                await self.expect_refusal("search", "result")
        else:
            raise ValueError(kind)


async def run_history(case):
    from vlib import rig
    rig.modules()
    rig.wipe()
    fx = fixtures(case["scheme"], case.get("seed", 1))
    sid = hashlib.sha256(("c10/%s/%s" % (case["scheme"], case.get("seed", 1))).encode()).hexdigest()
    from vlib import sched
    gate = sched.Gate()
    rig.set_sleep(gate.sleep)
    srv = await rig.Server().start()
    drv = Driver(case["scheme"], fx, sid, srv)
    drv.gate = gate
    try:
        for ev in case["history"]:
            await drv.step(list(ev))
        # final probe: a fresh connection reports the model state, and in the ready state answers from the accepted index
        await drv.step(["reconnect"])
        if drv.state == 2:
            await drv.step(["search", "beta"])
        await drv.drain_and_close()
        await drv.settle()
        # the accepted artefacts are still what is stored
        ns = rig.modules()
        if drv.state >= 1:
            stored = ns.server_fm.read_service_config(sid)
            if stored != json.loads(json.dumps(drv.cfg)):
                drv.fail("the stored configuration is not the accepted one", "stored_config_replaced")
        if drv.state == 2 and ns.server_fm.read_encrypted_database(sid) != drv.edb:
            drv.fail("the stored index is not the accepted one", "stored_index_replaced")
        return drv
    finally:
        for d in [drv] + list((drv.companion or {}).values()):
            with contextlib.suppress(Exception):
                if d.rc is not None:
                    await d.rc.close()
        stopping = {"done": False}

        async def auto_release():
            while not stopping["done"]:
                gate.release_one()
                await asyncio.sleep(0.005)
        rel = asyncio.ensure_future(auto_release())
        try:
            await asyncio.wait_for(srv.stop(), 30)
        finally:
            stopping["done"] = True
            with contextlib.suppress(BaseException):
                await rel
            rig.set_sleep(rig._fast_sleep)


def run_case(case):
    from vlib import rig
    rig.modules()
    return rig.run(run_history(case))


def to_events(word):
    out = []
    for a in word:
        if a.startswith("config"):
            out.append(["config", int(a[-1])])
        elif a.startswith("upload"):
            out.append(["upload", int(a[-1])])
        elif a == "search":
            out.append(["search", "alpha"])
        else:
            out.append([a])
    return out


@st.composite
def st_case(draw, max_len):
    ev = st.one_of(
        st.tuples(st.just("config"), st.sampled_from([1, 2])).map(list),
        st.tuples(st.just("upload"), st.sampled_from([1, 2])).map(list),
        st.tuples(st.just("search"), st.sampled_from(["alpha", "beta", "gamma", "absent"])).map(list),
        st.tuples(st.just("search"), st.sampled_from(["alpha", "beta"]), st.sampled_from(["nodigest", "strdigest"])).map(list),
        st.tuples(st.just("foreign"), st.sampled_from(["config", "upload_edb", "token"])).map(list),
        st.tuples(st.just("unknown"), st.sampled_from(["delete", "init", "result", "control", ""])).map(list),
        st.tuples(st.just("faulty"), st.sampled_from(["config", "upload"]), st.sampled_from([1, 2]), st.integers(0, 14)).map(list),
        st.sampled_from([["reconnect"], ["reconnect"], ["reconnect_early"], ["reconnect_early"], ["close"], ["restart"], ["restart", 1],
                         ["companion"], ["companion", "case"]]),
        st.tuples(st.just("pipeline"), st.lists(st.one_of(
            st.tuples(st.just("config"), st.sampled_from([1, 2])).map(list),
            st.tuples(st.just("upload"), st.sampled_from([1, 2])).map(list),
            st.tuples(st.just("search"), st.sampled_from(["alpha", "beta"])).map(list)), min_size=2, max_size=2)).map(list))
    return {"scheme": draw(st.sampled_from(SCHEMES)), "history": draw(st.lists(ev, min_size=1, max_size=max_len)),
            "seed": draw(st.integers(1, 5))}


def body(case, res):
    drv = None
    try:
        drv = run_case(case)
    finally:
        kinds = [e[0] for e in case["history"]]
        nt = bool(drv and drv.refused >= 1 and drv.reconnects_after_accept >= 1)
        cl = ["scheme:" + case["scheme"], "final_state:%s" % (drv.state if drv else "?")]
        if drv and getattr(drv, "faults_fired", 0):
            cl.append("io_fault_fired")
        for k in ("foreign", "unknown", "restart", "reconnect_early", "companion", "pipeline", "faulty"):
            if k in kinds:
                cl.append("has_" + k)
        if drv and drv.refused:
            cl.append("has_refusal")
        res.count([case["scheme"], case["history"]], nt, cl, sample={"scheme": case["scheme"], "history": case["history"]})


def shards(tier):
    out = [{"kind": "hyp", "i": i} for i in range(6 if tier == "quick" else 10)]
    out += [{"kind": "exhaustive", "first": a} for a in ALPHABET]
    return out


def run_shard(spec, seed, tier):
    res = ShardResult()
    if spec["kind"] == "hyp":
        n, ml = (50, 12) if tier == "quick" else (500, 25)
        hyp.search(res, st_case(ml), body, seed, n)
    else:
        depth = 4 if tier == "quick" else 5
        first = {}
        count = 0
        for d in range(1, depth + 1):
            for rest in itertools.product(ALPHABET, repeat=d - 1):
                word = (spec["first"],) + rest
                case = {"scheme": "CJJ14.PiPack", "history": to_events(word), "seed": 1}
                count += 1
                if len(first) >= 3:
                    continue  # the tree is broken in three different ways already: no need to finish the enumeration
                try:
                    body(case, res)
                except Violation as v:
                    if v.bucket not in first:
                        first[v.bucket] = (case, str(v))
        if spec["first"] == "config1":
            # explicit histories with a companion service (shared id prefix) before / after / between this service's steps
            for scheme in SCHEMES:
                for hist in ([["pipeline", [["upload", 1], ["upload", 2]]], ["reconnect"], ["search", "beta"]],
                             [["config", 1], ["pipeline", [["upload", 1], ["upload", 2]]], ["reconnect"], ["search", "beta"]],
                             [["pipeline", [["config", 1], ["config", 2]]], ["reconnect"], ["upload", 1], ["search", "alpha"]],
                             [["pipeline", [["config", 1], ["upload", 1]]], ["pipeline", [["search", "alpha"], ["search", "beta"]]]],
                             [["config", 1], ["reconnect"], ["upload", 1], ["restart", 1], ["search", "alpha"], ["upload", 2]],
                             [["config", 1], ["upload", 1], ["restart", 1], ["search", "beta"], ["reconnect_early"], ["search", "alpha"]],
                             [["config", 1], ["upload", 1], ["companion"], ["search", "alpha"], ["search", "beta"]],
                             [["companion", "case"], ["config", 1], ["upload", 1], ["search", "alpha"]],
                             [["config", 1], ["companion", "case"], ["upload", 1], ["search", "alpha"], ["companion", "case"], ["search", "beta"]],
                             [["config", 1], ["upload", 1], ["search", "alpha", "nodigest"], ["search", "beta", "strdigest"], ["search", "alpha"]],
                             [["companion"], ["config", 1], ["upload", 1], ["search", "alpha"], ["companion"], ["search", "beta"]],
                             [["config", 1], ["companion"], ["upload", 1], ["search", "alpha"], ["reconnect_early"], ["search", "beta"]],
                             [["config", 1], ["upload", 1], ["search", "alpha"], ["companion"], ["reconnect"], ["search", "alpha"]]):
                    case = {"scheme": scheme, "history": hist, "seed": 1}
                    count += 1
                    try:
                        body(case, res)
                    except Violation as v:
                        if v.bucket not in first:
                            first[v.bucket] = (case, str(v))
        if spec["first"] == "config2":
            # survivable I/O errors: every mutation index of a configuration upload and of an index upload, each followed by the
            # requests that tell the old state from the new one
            fired = 0
            for scheme in SCHEMES[:2] if tier == "quick" else SCHEMES:
                for n in range(0, 14):
                    for hist in ([["faulty", "config", 1, n], ["config", 2], ["upload", 2], ["search", "alpha"], ["search", "gamma"]],
                                 [["config", 1], ["faulty", "upload", 1, n], ["upload", 2], ["search", "alpha"], ["reconnect"], ["search", "beta"]],
                                 [["config", 1], ["reconnect"], ["faulty", "upload", 2, n], ["search", "alpha"], ["upload", 1], ["search", "beta"]],
                                 [["config", 2], ["upload", 2], ["faulty", "upload", 1, n], ["faulty", "config", 1, n], ["search", "beta"]]):
                        case = {"scheme": scheme, "history": hist, "seed": 1}
                        count += 1
                        try:
                            body(case, res)
                        except Violation as v:
                            if v.bucket not in first:
                                first[v.bucket] = (case, str(v))
        res.exhaustive = len(first) < 3
        res.extra["exhaustive_histories"] = count
        res.extra["exhaustive_bounds"] = "all histories of depth <= %d over %r (one scheme)" % (depth, ALPHABET)
        for bucket, (case, msg) in first.items():
            res.add_violation(case, msg, bucket)
    return res


def replay(case):
    try:
        run_case(case)
    except Violation as v:
        return str(v)
    return None

"""C05 — index size and layout reveal only the scheme's public size parameter."""
import collections

from hypothesis import strategies as st

from vlib import hyp
from vlib import schemes as S
from vlib.drbg import entropy
from vlib.runner import ShardResult, Violation
from vlib.search_common import stage_violation

ID = "C05"
LEVEL = "exploration"
RULE = ("a case is a PAIR of valid databases with equal public size parameter pi_S, built constructively: draw pi, then two "
        "independent length profiles realising it (compositions of N into different numbers of parts, 'many lists of 2^j+1' "
        "against 'one long list', block-count compositions for PiPack, (blocks, pointer blocks) realisations for PiPtr, equal "
        "(|W|, A_len) for Pi2Lev via equal contribution multisets, equal ceil(log2 N) for CT14/ANSS16), different keywords, "
        "identifiers and independent keys. Oracle (metamorphic): shape(EDB1) == shape(EDB2) where shape = per-container entry "
        "count and multiset of (type, byte length) of keys and values; plus uniform key/value length inside every dict-typed "
        "table, uniform entry length in SSE-1/PiPtr/Pi2Lev arrays, DP17 bucket lengths multiples of the entry ciphertext length. "
        "Non-trivial = the two profiles differ in keyword count or maximum list length; distinct = distinct (scheme, config, "
        "two sorted profiles).")
ASSUMPTIONS = ["shape is computed from the unpickled containers of EDB.serialize()",
               "SSE-2's integer keys are compared by type only; DP17's last bucket of a level may legitimately be shorter"]


# ---------------------------------------------------------------------------------------------------------
# shape
# ---------------------------------------------------------------------------------------------------------
def leaf_sig(v):
    if isinstance(v, (bytes, bytearray)):
        return "bytes:%d" % len(v)
    if v is None:
        return "None"
    return type(v).__name__


def shape(payload):
    out = {}
    for path, cont in S.tables(payload):
        key = "/".join(path) or "/"
        if isinstance(cont, dict):
            ks = collections.Counter(leaf_sig(k) for k in cont.keys())
            vs = collections.Counter(leaf_sig(v) if not isinstance(v, (dict, list, tuple)) else "container" for v in cont.values())
            out[key] = ("dict", len(cont), sorted(ks.items()), sorted(vs.items()))
        else:
            vs = collections.Counter(leaf_sig(v) if not isinstance(v, (dict, list, tuple)) else "container" for v in cont)
            out[key] = ("list", len(cont), [], sorted(vs.items()))
    return out


def uniformity(scheme, payload, entry_cipher_len=None):
    for path, cont in S.tables(payload):
        key = "/".join(path) or "/"
        if isinstance(cont, dict):
            kl = {len(k) for k in cont.keys() if isinstance(k, (bytes, bytearray))}
            vl = {len(v) for v in cont.values() if isinstance(v, (bytes, bytearray))}
            if len(kl) > 1:
                raise Violation("%s: table %s has keys of lengths %r" % (scheme, key, sorted(kl)), "%s:nonuniform_keys" % scheme)
            if len(vl) > 1:
                raise Violation("%s: table %s has values of lengths %r (padding distinguishable from real entries)" % (
                    scheme, key, sorted(vl)), "%s:nonuniform_values" % scheme)
        else:
            vl = [len(v) for v in cont if isinstance(v, (bytes, bytearray))]
            if scheme == "DP17.Pi":
                if entry_cipher_len and any(x % entry_cipher_len for x in vl):
                    raise Violation("%s: a bucket in %s is not a multiple of the entry ciphertext length %d: %r" % (
                        scheme, key, entry_cipher_len, sorted(set(vl))), "%s:bucket_length" % scheme)
            elif len(set(vl)) > 1:
                raise Violation("%s: array %s has entries of lengths %r" % (scheme, key, sorted(set(vl))), "%s:nonuniform_array" % scheme)


# ---------------------------------------------------------------------------------------------------------
# pair generators
# ---------------------------------------------------------------------------------------------------------
@st.composite
def st_composition(draw, total, max_parts=12, max_part=None):
    """positive integers summing to `total` (each <= max_part), in several characteristic shapes"""
    max_part = max_part or total
    mode = draw(st.sampled_from(["one", "ones", "cuts", "cuts", "equal_pow2p1", "two"]))
    if total == 1:
        return [1]
    parts = None
    if mode == "one" and total <= max_part:
        parts = [total]
    elif mode == "ones" and total <= max_parts:
        parts = [1] * total
    elif mode == "equal_pow2p1":
        p = draw(st.sampled_from([2, 3, 5, 9, 17]))
        if p <= max_part and total // p >= 1 and total // p + 1 <= max_parts:
            parts = [p] * (total // p) + ([total % p] if total % p else [])
    elif mode == "two" and total >= 2:
        a = draw(st.integers(1, total - 1))
        parts = [a, total - a]
    if parts is None or any(x > max_part for x in parts):
        kmin = max(1, -(-total // max_part))
        k = draw(st.integers(kmin, max(kmin, min(max_parts, total))))
        cuts = sorted(draw(st.lists(st.integers(1, total - 1), min_size=k - 1, max_size=k - 1, unique=True))) if k > 1 else []
        parts, prev = [], 0
        for c in cuts:
            parts.append(c - prev)
            prev = c
        parts.append(total - prev)
        # repair parts above max_part by splitting
        fixed = []
        for x in parts:
            while x > max_part:
                fixed.append(max_part)
                x -= max_part
            if x:
                fixed.append(x)
        parts = fixed
    return parts


def pi2lev_contrib(cfg, n):
    c = 0
    if n > cfg["param_b"]:
        c += -(-n // cfg["param_B"])
    if n > cfg["param_b_prime"] * cfg["param_B"]:
        c += -(-n // (cfg["param_B"] * cfg["param_B_prime"]))
    return c


@st.composite
def st_pair_lens(draw, scheme, cfg):
    desc = S.DESCS[scheme]
    idsz = desc.id_size(cfg)
    max_list = min(desc.max_list(cfg), 256 ** idsz - 1, 160)
    if scheme == "CGKO06.SSE1":
        cap = min(cfg["param_s"] - 1, 120)
        n1 = draw(st.integers(1, cap))
        n2 = draw(st.integers(1, cap))
        return draw(st_composition(n1, 10, max_list)), draw(st_composition(n2, 10, max_list))
    if scheme in ("CGKO06.SSE2", "CJJ14.PiBas", "DP17.Pi"):
        N = draw(st.one_of(st.integers(1, 40), st.sampled_from([1, 2, 3, 4, 8, 15, 16, 17, 31, 32, 33, 64]))) if scheme == "CGKO06.SSE2" else \
            draw(st.one_of(st.integers(1, 130), st.sampled_from([1, 2, 3, 4, 8, 15, 16, 17, 31, 32, 33, 63, 64, 65, 127, 128, 129])))
        mp = min(max_list, 40) if scheme == "CGKO06.SSE2" else max_list
        return draw(st_composition(N, 12, mp)), draw(st_composition(N, 12, mp))
    if scheme == "CJJ14.PiPack":
        Bk = cfg["param_B"]
        T = draw(st.integers(1, 24))
        maxc = max(1, max_list // Bk)
        out = []
        for _ in range(2):
            comp = draw(st_composition(T, 10, maxc))
            out.append([min(max_list, draw(st.integers((c - 1) * Bk + 1, c * Bk))) for c in comp])
        return out[0], out[1]
    if scheme == "CJJ14.PiPtr":
        Bk, b = cfg["param_B"], cfg["param_b"]
        Q = draw(st.integers(1, 8))  # pointer blocks in total
        maxq = max(1, (max_list // Bk) // b) if (max_list // Bk) >= b else 1
        q1 = draw(st_composition(Q, 8, maxq))
        q2 = draw(st_composition(Q, 8, maxq))
        capblocks = max(1, max_list // Bk)
        lo = max(sum((q - 1) * b + 1 for q in q1), sum((q - 1) * b + 1 for q in q2))
        hi = min(sum(min(q * b, capblocks) for q in q1), sum(min(q * b, capblocks) for q in q2))
        if lo > hi:  # cannot realise the same block total with both pointer-block compositions: fall back to equal compositions
            q2 = list(q1)
            lo = sum((q - 1) * b + 1 for q in q1)
            hi = sum(min(q * b, capblocks) for q in q1)
            hi = max(hi, lo)
        T = draw(st.integers(lo, hi))
        out = []
        for qs in (q1, q2):
            t = [(q - 1) * b + 1 for q in qs]
            caps = [max((q - 1) * b + 1, min(q * b, capblocks)) for q in qs]
            rem = T - sum(t)
            order = draw(st.permutations(list(range(len(qs)))))
            for j in order:
                add = min(rem, caps[j] - t[j])
                if add > 0:
                    give = draw(st.integers(0, add)) if j != order[-1] else add
                    t[j] += give
                    rem -= give
            for j in order:  # whatever is left
                add = min(rem, caps[j] - t[j])
                t[j] += add
                rem -= add
            out.append([min(max_list, draw(st.integers((c - 1) * Bk + 1, c * Bk))) for c in t])
        return out[0], out[1]
    if scheme == "CJJ14.Pi2Lev":
        lim = min(desc.limit(cfg) - 1, 200, 256 ** idsz - 1)
        pre = collections.defaultdict(list)
        for n in range(1, lim + 1):
            pre[pi2lev_contrib(cfg, n)].append(n)
        k = draw(st.integers(1, 8))
        lens1 = [draw(st.integers(1, lim)) if draw(st.booleans()) else draw(st.sampled_from([t for t in desc.thresholds(cfg) if t <= lim] or [1]))
                 for _ in range(k)]
        Bk_, Bp_, bp_ = cfg["param_B"], cfg["param_B_prime"], cfg["param_b_prime"]
        lo_large = max(Bk_ * bp_ + 1, Bk_ * (Bp_ - 1) + 1)
        if lo_large <= lim and draw(st.booleans()):
            # a LARGE list with at least one completely full pointer block (two-level path, pointer blocks padded to the array
            # block size): the shape most sensitive to how full and partial blocks are padded
            lens1[0] = draw(st.integers(lo_large, lim))
        if not desc.lens_ok(cfg, lens1):
            lens1 = [1] * k
        contribs = [pi2lev_contrib(cfg, n) for n in lens1]
        # the second database has the same keyword count and the same total array length, but (when possible) a DIFFERENT split
        # of that length over the keywords (e.g. one keyword with 64 blocks against two with 32)
        total = sum(contribs)
        achievable = sorted(pre)
        other = None
        if k >= 2 and total > 0:
            for _ in range(12):
                parts = [draw(st.sampled_from(achievable)) for _ in range(k - 1)]
                last = total - sum(parts)
                if last in pre:
                    cand = parts + [last]
                    if sorted(cand) != sorted(contribs):
                        other = cand
                        break
        contribs2 = other if other is not None else list(draw(st.permutations(contribs)))
        lens2 = [draw(st.sampled_from(pre[c])) for c in contribs2]
        if not desc.lens_ok(cfg, lens2):
            lens2 = [draw(st.sampled_from(pre[c])) for c in contribs]
        return lens1, lens2
    # CT14 / ANSS16: equal ceil(log2 N)
    t = draw(st.integers(0, 7))
    if t == 0:
        return [1], [1]
    lo, hi = 2 ** (t - 1) + 1, 2 ** t
    n1 = draw(st.one_of(st.integers(lo, hi), st.sampled_from([lo, hi, hi - 1 if hi - 1 >= lo else hi])))
    n2 = draw(st.one_of(st.integers(lo, hi), st.sampled_from([lo, hi, hi - 1 if hi - 1 >= lo else hi])))
    return draw(st_composition(n1, 12, max_list)), draw(st_composition(n2, 12, max_list))


def _pi2lev_crossing():
    """Pi2Lev parameter sets whose full pointer blocks (B' pointers) are shorter than the array block by enough to change the
    AES-CBC ciphertext length, with a large-case list that fits the exploration bounds"""
    out = []
    for idsz, combos in S.PI2LEV_COMBOS.items():
        for (Bk, b, Bp, bp) in combos:
            idx = (Bk * idsz) // Bp
            if (1 + Bp * idx) // 16 != (1 + Bk * idsz) // 16:
                lo = max(Bk * bp + 1, Bk * (Bp - 1) + 1)
                if lo <= min(200, Bk * Bp * bp - 1, 256 ** idsz - 1):
                    out.append((idsz, Bk, b, Bp, bp))
    return out


PI2LEV_CROSSING = _pi2lev_crossing()


@st.composite
def st_case(draw, scheme):
    desc = S.DESCS[scheme]
    cfg = desc.st_config(draw)
    if scheme == "CJJ14.Pi2Lev" and PI2LEV_CROSSING and draw(st.integers(0, 2)) == 0:
        idsz, Bk, b, Bp, bp = draw(st.sampled_from(PI2LEV_CROSSING))
        cfg.update(param_B=Bk, param_b=b, param_B_prime=Bp, param_b_prime=bp, param_identifier_size=idsz)
    if scheme == "CGKO06.SSE1" and cfg["param_s"] > 1024:
        cfg["param_s"] = 1024
    lens1, lens2 = draw(st_pair_lens(scheme, cfg))
    spec1 = draw(S.st_db_spec(desc, cfg, lens=lens1))
    spec2 = draw(S.st_db_spec(desc, cfg, lens=lens2))
    if scheme == "CGKO06.SSE1":
        cfg["param_dictionary_size"] = max(len(lens1), len(lens2)) + draw(st.sampled_from([0, 3, 50]))
    return {"scheme": scheme, "cfg": cfg, "db1": spec1, "db2": spec2, "seed": draw(st.integers(0, 2 ** 48))}


def run_case(case):
    scheme = case["scheme"]
    desc = S.DESCS[scheme]
    db1, db2 = S.build_db(case["db1"]), S.build_db(case["db2"])
    cfg = dict(case["cfg"])
    if scheme == "CGKO06.SSE2":
        slack = -cfg["param_n"] if cfg["param_n"] <= 0 else 0
        cfg["param_n"] = max(S.distinct_ids(db1), S.distinct_ids(db2)) + slack
    cfg = S.public_cfg(cfg)
    p1, p2 = desc.pi(cfg, db1), desc.pi(cfg, db2)
    if p1 != p2:
        from vlib.runner import HarnessError
        raise HarnessError("pair generator produced unequal size parameters %r / %r for %s" % (p1, p2, scheme))
    loader = S.load(scheme)
    with entropy(case["seed"]):
        try:
            sch = loader.SSEScheme(cfg)
            k1, k2 = sch.KeyGen(), sch.KeyGen()
            raw1 = sch.EDBSetup(k1, db1).serialize()
            raw2 = sch.EDBSetup(k2, db2).serialize()
            ecl = getattr(sch.config, "param_identifier_cipher_len", None) if scheme == "DP17.Pi" else None
        except Exception as e:
            raise stage_violation(scheme, "setup", e)
    pl1, pl2 = S.edb_payload(raw1), S.edb_payload(raw2)
    uniformity(scheme, pl1, ecl)
    uniformity(scheme, pl2, ecl)
    s1, s2 = shape(pl1), shape(pl2)
    if s1 != s2:
        diff = [k for k in sorted(set(s1) | set(s2)) if s1.get(k) != s2.get(k)][:3]
        detail = "; ".join("%s: %r vs %r" % (k, s1.get(k), s2.get(k)) for k in diff)
        raise Violation("%s: equal size parameter %r but different index shapes for profiles %r / %r -- %s" % (
            scheme, p1, sorted(case["db1"]["lens"]), sorted(case["db2"]["lens"]), detail[:600]), "%s:shape_differs" % scheme)
    if len(raw1) != len(raw2) and scheme != "CGKO06.SSE2":
        # equal shapes imply equal pickled sizes up to integer encodings (SSE-2 keys / DP17 levels are ints of equal values)
        pass


def nontrivial(case):
    a, b = case["db1"]["lens"], case["db2"]["lens"]
    return len(a) != len(b) or max(a) != max(b)


def body(case, res):
    a, b = case["db1"]["lens"], case["db2"]["lens"]
    cl = ["scheme:" + case["scheme"], "kwcount:" + ("equal" if len(a) == len(b) else "differs"),
          "maxlen:" + ("equal" if max(a) == max(b) else "differs"), "N:" + ("equal" if sum(a) == sum(b) else "differs")]
    res.count([case["scheme"], sorted((k, repr(v)) for k, v in case["cfg"].items()), sorted(a), sorted(b)], nontrivial(case), cl,
              sample={"scheme": case["scheme"], "cfg": S.public_cfg(case["cfg"]), "lens1": a, "lens2": b, "seed": case["seed"]})
    run_case(case)


def shards(tier):
    out = [{"kind": "hyp", "scheme": s, "i": 0} for s in S.SCHEMES]
    if tier == "thorough":
        out += [{"kind": "hyp", "scheme": s, "i": 1} for s in S.SCHEMES]
        out += [{"kind": "partition_pairs", "scheme": s} for s in ("CT14.Pi", "ANSS16.Scheme3", "DP17.Pi")]
    return out


def run_shard(spec, seed, tier):
    res = ShardResult()
    scheme = spec["scheme"]
    if spec["kind"] == "hyp":
        n = 200 if tier == "quick" else 2500
        if scheme == "CGKO06.SSE2":
            n //= 2
        hyp.search(res, st_case(scheme), body, seed, n)
    else:
        # all partitions of N <= 10 against the single-list profile and the all-ones profile of the same size class
        from vlib import search_props as SP
        first = {}
        cfg = SP.small_config(scheme, 0)
        for N in range(1, 11):
            parts = list(S.partitions(N))
            for part in parts:
                for other in (parts[0], parts[-1]):
                    case = {"scheme": scheme, "cfg": cfg, "seed": seed % 100000 + N,
                            "db1": SP.explicit_case(scheme, cfg, part, 0)["db"], "db2": SP.explicit_case(scheme, cfg, other, 0)["db"]}
                    case["db2"]["kws"] = [(b"v%d" % i).hex() for i in range(len(other))]
                    try:
                        body(case, res)
                    except Violation as v:
                        if v.bucket not in first:
                            first[v.bucket] = (case, str(v))
        res.extra["partition_pairs_bounds"] = "every partition of N <= 10 paired with [N] and [1]*N (equal N, hence equal pi)"
        for bucket, (case, msg) in first.items():
            res.add_violation(case, msg, bucket)
    return res


def replay(case):
    try:
        run_case(case)
    except Violation as v:
        return str(v)
    return None

"""C16 — PRF and hash wrappers: deterministic, exact output length, standard-conformant."""
import hashlib
import hmac as _hmac

from hypothesis import strategies as st

from vlib import hyp, simple
from vlib.runner import ShardResult, Violation

ID = "C16"
LEVEL = "exploration"
RULE = ("cases are (prf|hash, digest, key 0..80 bytes, message 0..200 bytes, output length 1..200 (enumerated completely for "
        "short inputs, random up to 2000 beyond), declared key/message lengths matching or not, alias spelling). Oracles: an "
        "independent RFC 5246 P_hash / counter-mode expansion / native XOF written in the harness, exact length, determinism, "
        "pairwise distinctness on sampled (key, message) sets with n >= 16, ValueError on contract breaches and unknown "
        "names; call histories on ONE PRF object with declared lengths (every sequence of up to 4-5 calls over {valid key 0, valid key 1, "
        "key too long, key too short, message too long} and random ones up to 12 calls): each valid call equals the reference, each invalid "
        "call raises, also when the same invalid argument comes twice. Non-trivial = output longer than one digest, or empty key/message, or a contract-breach case, or a "
        "distinctness set; distinct = distinct case.")
ASSUMPTIONS = ["hmac/hashlib of the standard library are trusted as the base of the independent reference",
               "hash names are the lower-case hashlib names the schemes' configurations use, plus 'SHA1'/'SHA256' spellings "
               "for the non-XOF digests (DP17's default is 'SHA1')"]

PRF_DIGESTS = ["sha1", "sha256", "sha512", "md5"]
HASH_DIGESTS = PRF_DIGESTS + ["shake_128", "shake_256"]
PRF_ALIASES = ["HmacPRF", "hmacprf", "hmac-prf", "HMAC_PRF", "Hmac-Prf"]


def B(h):
    return bytes.fromhex(h)


def ref_p_hash(secret, seed, n, digest):
    """RFC 5246 section 5: A(0)=seed, A(i)=HMAC(secret, A(i-1)); out = HMAC(secret, A(1)+seed) || HMAC(secret, A(2)+seed) ..."""
    out = b""
    a = seed
    while len(out) < n:
        a = _hmac.new(secret, a, digest).digest()
        out += _hmac.new(secret, a + seed, digest).digest()
    return out[:n]


def ref_hash(msg, n, digest):
    if digest.lower() in ("shake_128", "shake_256"):
        return hashlib.new(digest.lower(), msg).digest(n)
    out = b""
    c = 1
    while len(out) < n:
        ctr = c.to_bytes((c.bit_length() + 7) // 8, "big")
        out += hashlib.new(digest.lower(), msg + ctr).digest()
        c += 1
    return out[:n]


def expect_value_error(fn, what):
    try:
        fn()
    except ValueError:
        return
    except Exception as e:
        raise Violation("%s: raised %s (%s) instead of ValueError" % (what, type(e).__name__, e), what + ":wrongexc")
    raise Violation("%s: accepted" % what, what + ":accepted")


def run_case(case):
    from toolkit.prf import get_prf_implementation
    from toolkit.hash import get_hash_implementation
    kind = case["kind"]
    try:
        if kind == "prf":
            key, msg, n, digest = B(case["key"]), B(case["m"]), case["n"], case["digest"]
            kw = {"output_length": n, "hash_func_name": digest}
            if case.get("declare_key"):
                kw["key_length"] = len(key)
            if case.get("declare_msg"):
                kw["message_length"] = len(msg)
            prf = get_prf_implementation(case["alias"])(**kw)
            out = prf(key, msg)
            if not isinstance(out, bytes) or len(out) != n:
                raise Violation("PRF output has %d bytes, requested %d" % (len(out), n), "prf:length")
            if out != ref_p_hash(key, msg, n, digest):
                raise Violation("PRF output differs from the RFC 5246 P_hash reference (digest %s, n=%d)" % (digest, n), "prf:reference")
            if prf(key, msg) != out:
                raise Violation("PRF is not deterministic", "prf:determinism")
        elif kind == "prf_default_len":
            digest = case["digest"]
            prf = get_prf_implementation(case["alias"])(hash_func_name=digest)
            out = prf(B(case["key"]), B(case["m"]))
            dl = hashlib.new(digest).digest_size
            if len(out) != dl or out != ref_p_hash(B(case["key"]), B(case["m"]), dl, digest):
                raise Violation("PRF without output_length: %d bytes (digest size %d) or wrong value" % (len(out), dl), "prf:default")
        elif kind == "hash":
            msg, n, digest = B(case["m"]), case["n"], case["digest"]
            h = get_hash_implementation(digest)(output_length=n)
            out = h(msg)
            if not isinstance(out, bytes) or len(out) != n:
                raise Violation("hash output has %d bytes, requested %d (%s)" % (len(out), n, digest), "hash:length")
            if out != ref_hash(msg, n, digest):
                raise Violation("hash output differs from the reference expansion (%s, n=%d)" % (digest, n), "hash:reference")
            if h(msg) != out:
                raise Violation("hash is not deterministic", "hash:determinism")
        elif kind == "hash_default_len":
            digest = case["digest"]
            h = get_hash_implementation(digest)()
            dl = hashlib.new(digest.lower()).digest_size
            out = h(B(case["m"]))
            if h.output_length != dl or len(out) != dl or out != ref_hash(B(case["m"]), dl, digest):
                raise Violation("hash without output_length: %d bytes (digest size %d) or wrong value" % (len(out), dl), "hash:default")
        elif kind == "prf_distinct":
            n, digest, klen = case["n"], case["digest"], case["klen"]
            prf = get_prf_implementation("HmacPRF")(output_length=n, key_length=klen, hash_func_name=digest)
            seen = {}
            for i in range(case["count"]):
                d = hashlib.sha256(("%d/%d" % (case["salt"], i)).encode()).digest()
                key = (d * 3)[:klen]
                msg = hashlib.sha256(d).digest()[: (i % 33)]
                if case["mode"] == "same_key":
                    key = (hashlib.sha256(str(case["salt"]).encode()).digest() * 3)[:klen]
                    msg = d[: 1 + i % 31] + bytes([i & 0xFF, i >> 8])
                elif case["mode"] == "same_msg":
                    msg = b"fixed message"
                    key = (d * 3)[:klen]
                out = prf(key, msg)
                if out in seen and seen[out] != (key, msg):
                    raise Violation("PRF collision between distinct (key, message) pairs (n=%d)" % n, "prf:collision")
                seen[out] = (key, msg)
        elif kind == "hash_distinct":
            n, digest = case["n"], case["digest"]
            h = get_hash_implementation(digest)(output_length=n)
            seen = {}
            for i in range(case["count"]):
                msg = hashlib.sha256(("%d/%d" % (case["salt"], i)).encode()).digest()[: 1 + i % 32] + i.to_bytes(3, "big")
                out = h(msg)
                if out in seen and seen[out] != msg:
                    raise Violation("hash collision between distinct messages (n=%d)" % n, "hash:collision")
                seen[out] = msg
        elif kind == "prf_history":
            # ONE PRF object with declared key and message lengths, called repeatedly with valid and invalid arguments in any
            # order (also the same invalid argument twice): every valid call equals the reference, every invalid call raises
            klen, mlen, n, digest = case["klen"], case["mlen"], case["n"], case["digest"]
            prf = get_prf_implementation(case["alias"])(output_length=n, key_length=klen, message_length=mlen, hash_func_name=digest)
            keys = {"g0": b"\x11" * klen, "g1": bytes(range(1, klen + 1)), "bk0": b"\x11" * (klen + 1), "bk1": b"\x11" * max(0, klen - 1)}
            msgs = {"g0": b"\x22" * mlen, "g1": bytes(range(2, mlen + 2)), "bm0": b"\x22" * (mlen + 1)}
            for n_op, (kn, mn) in enumerate(case["calls"]):
                key, msg = keys[kn], msgs[mn]
                valid = kn.startswith("g") and mn.startswith("g")
                try:
                    out = prf(key, msg)
                except ValueError:
                    if valid:
                        raise Violation("call #%d with valid arguments raised ValueError (calls so far %r)" % (n_op, case["calls"][:n_op + 1]),
                                        "prf_history:valid_refused")
                    continue
                if not valid:
                    raise Violation("call #%d with a %d-byte key and %d-byte message was accepted by a PRF declared for %d/%d bytes "
                                    "(calls so far %r)" % (n_op, len(key), len(msg), klen, mlen, case["calls"][:n_op + 1]),
                                    "prf_history:invalid_accepted")
                if out != ref_p_hash(key, msg, n, digest):
                    raise Violation("call #%d differs from the P_hash reference (calls so far %r)" % (n_op, case["calls"][:n_op + 1]),
                                    "prf_history:reference")
        elif kind == "prf_contract":
            what = case["what"]
            if what == "key_len":
                prf = get_prf_implementation("HmacPRF")(output_length=16, key_length=case["declared"])
                expect_value_error(lambda: prf(b"k" * case["actual"], b"m"), "PRF(key length != declared)")
            elif what == "msg_len":
                prf = get_prf_implementation("HmacPRF")(output_length=16, message_length=case["declared"])
                expect_value_error(lambda: prf(b"k" * 16, b"m" * case["actual"]), "PRF(message length != declared)")
            elif what == "bad_digest":
                expect_value_error(lambda: get_prf_implementation("HmacPRF")(output_length=16, hash_func_name=case["name"]),
                                   "PRF(unknown digest)")
            elif what == "bad_prf":
                expect_value_error(lambda: get_prf_implementation(case["name"]), "get_prf_implementation(unknown)")
            elif what == "bad_hash":
                expect_value_error(lambda: get_hash_implementation(case["name"]), "get_hash_implementation(unknown)")
        else:
            raise ValueError(kind)
    except Violation:
        raise
    except Exception as e:
        raise Violation("%s raised %s: %s" % (kind, type(e).__name__, e), "%s:exc:%s" % (kind, type(e).__name__))


@st.composite
def st_case(draw):
    kind = draw(st.sampled_from(["prf"] * 5 + ["hash"] * 5 + ["prf_default_len", "hash_default_len", "prf_distinct",
                                                              "hash_distinct", "prf_contract", "prf_history", "prf_history"]))
    c = {"kind": kind}
    n = draw(st.one_of(st.integers(1, 200), st.sampled_from([1, 15, 16, 19, 20, 21, 31, 32, 33, 40, 63, 64, 65, 128, 129, 200]),
                       st.integers(1, 2000)))
    if kind in ("prf", "prf_default_len"):
        c.update(alias=draw(st.sampled_from(PRF_ALIASES)), digest=draw(st.sampled_from(PRF_DIGESTS)),
                 key=draw(st.one_of(st.binary(max_size=80), st.sampled_from([b"", b"\x00", b"\x00" * 64, b"k" * 65]))).hex(),
                 m=draw(st.one_of(st.binary(max_size=200), st.just(b""))).hex(), n=n,
                 declare_key=draw(st.booleans()), declare_msg=draw(st.booleans()))
    elif kind in ("hash", "hash_default_len"):
        digest = draw(st.sampled_from(HASH_DIGESTS))
        if not digest.startswith("shake") and draw(st.integers(0, 4)) == 0:
            digest = digest.upper()
        c.update(digest=digest, m=draw(st.one_of(st.binary(max_size=200), st.just(b""))).hex(), n=n)
        if kind == "hash_default_len" and digest.startswith("shake"):
            c["digest"] = "sha256"
    elif kind == "prf_history":
        c.update(alias=draw(st.sampled_from(PRF_ALIASES)), digest=draw(st.sampled_from(PRF_DIGESTS)), n=draw(st.sampled_from([1, 16, 20, 32, 33, 70])),
                 klen=draw(st.sampled_from([1, 16, 24, 32, 64, 65])), mlen=draw(st.sampled_from([1, 4, 16, 33])),
                 calls=draw(st.lists(st.tuples(st.sampled_from(["g0", "g1", "bk0", "bk1"]), st.sampled_from(["g0", "g1", "bm0"])).map(list),
                                     min_size=3, max_size=12)))
    elif kind == "prf_distinct":
        c.update(n=draw(st.integers(16, 64)), digest=draw(st.sampled_from(PRF_DIGESTS)), klen=draw(st.sampled_from([1, 8, 16, 24, 32, 64])),
                 count=draw(st.integers(20, 120)), salt=draw(st.integers(0, 2 ** 32)),
                 mode=draw(st.sampled_from(["both", "same_key", "same_msg"])))
        if c["mode"] == "same_msg" and c["klen"] == 1:
            c["klen"] = 8
    elif kind == "hash_distinct":
        c.update(n=draw(st.integers(16, 64)), digest=draw(st.sampled_from(HASH_DIGESTS)), count=draw(st.integers(20, 120)),
                 salt=draw(st.integers(0, 2 ** 32)))
    else:
        what = draw(st.sampled_from(["key_len", "msg_len", "bad_digest", "bad_prf", "bad_hash"]))
        c["what"] = what
        if what in ("key_len", "msg_len"):
            d = draw(st.integers(0, 64))
            c.update(declared=d, actual=draw(st.integers(0, 70).filter(lambda v: v != d)))
        elif what == "bad_digest":
            c["name"] = draw(st.sampled_from(["sha3", "SHA-1", "", "md6", "hmac", "sha-256", "AES-CBC"]))
        elif what == "bad_prf":
            c["name"] = draw(st.sampled_from(["Hmac", "AES-CBC", "", "prf", "hmac prf", "BitwiseFPEPRP"]))
        else:
            c["name"] = draw(st.sampled_from(["sha3", "SHA-1", "", "md6", "HmacPRF", "sha-256"]))
    return c


def is_nontrivial(c):
    k = c["kind"]
    if k in ("prf", "hash"):
        dl = hashlib.new(c["digest"].lower()).digest_size or 32
        return c["n"] > dl or c["m"] == "" or c.get("key") == ""
    return True


def classes_of(c):
    out = ["kind:" + c["kind"]]
    if c["kind"] in ("prf", "hash"):
        out.append("digest:" + c["digest"].lower())
        dl = hashlib.new(c["digest"].lower()).digest_size or 32
        out.append("n:" + ("<digest" if c["n"] < dl else "=digest" if c["n"] == dl else "<=4x" if c["n"] <= 4 * dl else ">4x"))
    return out


def _history_cases(tier):
    import itertools
    # every (key, message) combination of {valid key 0, valid key 1, key too long, key too short} x {valid message 0, valid message 1,
    # message too long}: 12 letters
    alphabet = [[k, m] for k in ("g0", "g1", "bk0", "bk1") for m in ("g0", "g1", "bm0")]
    for depth in range(1, 4 if tier == "quick" else 5):
        for word in itertools.product(alphabet, repeat=depth):
            yield {"kind": "prf_history", "alias": "HmacPRF", "digest": "sha256" if depth % 2 else "sha1", "n": 33, "klen": 16, "mlen": 4,
                   "calls": [list(x) for x in word] + [["g0", "g0"], ["g1", "g1"]]}


def shards(tier):
    out = [{"kind": "lengths", "digest": d} for d in HASH_DIGESTS] + [{"kind": "histories"}]
    out += [{"kind": "hyp", "i": i} for i in range(4 if tier == "quick" else 10)]
    if tier == "thorough":
        out.append({"kind": "fuzz"})
    return out


def _length_cases(digest, seed, tier):
    """All output lengths 1..200 for a few short inputs."""
    inputs = [(b"", b""), (b"k", b"m"), (b"\x00" * 16, b"abc"), (hashlib.sha256(str(seed).encode()).digest(), b"x" * 65)]
    # keys around the HMAC block size of the digest (64 bytes; 128 for sha512): HMAC hashes only keys LONGER than a block
    blk = hashlib.new(digest).block_size if not digest.startswith("shake") else 64
    inputs += [((hashlib.sha512(b"blk%d" % d).digest() * 3)[:blk + d], b"m%d" % d) for d in (-1, 0, 1)]
    if tier != "quick":
        inputs += [(hashlib.sha256(b"%d" % i).digest()[: 3 * i % 33], hashlib.sha512(b"%d" % i).digest()[: 7 * i % 64]) for i in range(12)]
    for key, msg in inputs:
        for n in range(1, 201):
            if digest in PRF_DIGESTS:
                yield {"kind": "prf", "alias": PRF_ALIASES[n % len(PRF_ALIASES)], "digest": digest, "key": key.hex(), "m": msg.hex(),
                       "n": n, "declare_key": bool(n % 2), "declare_msg": bool(n % 3 == 0)}
            yield {"kind": "hash", "digest": digest, "m": (key + msg).hex(), "n": n}


def run_shard(spec, seed, tier):
    import sys
    mod = sys.modules[__name__]
    res = ShardResult()
    if spec["kind"] == "lengths":
        simple.run_enumeration(res, mod, _length_cases(spec["digest"], seed, tier))
        res.extra["lengths_bounds"] = "every output length 1..200 per digest for %d inputs incl. keys of block size -1/0/+1" % (7 if tier == "quick" else 19)
    elif spec["kind"] == "histories":
        simple.run_enumeration(res, mod, _history_cases(tier))
        res.extra["history_bounds"] = ("every sequence of up to %d calls on one PRF object over {valid k0, valid k1, key too long, key too short} x "
                                       "{valid m0, valid m1, message too long}, followed by two valid calls" % (3 if tier == "quick" else 4))
        res.exhaustive = True
    elif spec["kind"] == "fuzz":
        simple.fuzz_stage(res, "props.c16", seed, 30000)
    else:
        hyp.search(res, st_case(), simple.make_body(mod), seed, 2000 if tier == "quick" else 30000)
    return res


FUZZ_STRATEGY = st_case
fuzz_body = run_case


def replay(case):
    import sys
    return simple.replay(sys.modules[__name__], case)

"""C04 — the stored index and the tokens never expose keywords or identifiers; encryption is randomized."""
import hashlib

from hypothesis import strategies as st

from vlib import hyp
from vlib import schemes as S
from vlib.drbg import entropy, stream
from vlib.runner import ShardResult, Violation
from vlib.search_common import stage_violation

ID = "C04"
LEVEL = "exploration"
RULE = ("a case is (scheme, configuration, database SHAPE drawn by Hypothesis: 2..10 keywords, list lengths 1..12, which pool "
        "identifiers sit under which keyword incl. one identifier under every keyword; database CONTENT from a seeded DRBG: "
        "keywords of 8..24 random bytes, identifiers of 8..20 random bytes; SSE-1/2 keyword fields up to 128 bytes; some builds perform "
        "exactly 256 encryptions). Two setups under one key with one scheme object, one with a brand-new scheme instance, for a seventh of the cases two more in fresh interpreters and two in workers forked from a warmed-up parent, one under a second "
        "key. Oracles: (a) no keyword and (except SSE-2) no identifier is a substring of EDB.serialize() or of any token "
        "(asserted only while the chance of an accidental hit is < 1e-15); (b) all 16-byte blocks of all ciphertext-bearing "
        "entries of one index are pairwise distinct; (c) those block sets of two indexes of the same (key, DB) are disjoint; "
        "(d) labels and tokens under two different keys share nothing. Non-trivial = an identifier occurs under >= 3 keywords "
        "or the index holds >= 32 ciphertext blocks; distinct = distinct (scheme, config, shape).")
ASSUMPTIONS = ["necessary-condition check on bytes only; semantic security is out of reach",
               "SSE-2 stores identifiers in the clear by construction (exempt for identifiers and has no ciphertexts)",
               "SSE-1 table values and DP17 hash-table values are masks of key-derived addresses, not SKE ciphertexts"]

ID_SIZES = [8, 12, 16, 20]


def config_for(draw, scheme):
    desc = S.DESCS[scheme]
    cfg = desc.st_config(draw)
    if scheme == "CJJ14.Pi2Lev":
        # identifiers of 8/16 random bytes; every list of the shape (<= 12 postings) must be below B*B'*b'
        if cfg["param_identifier_size"] not in (8, 16) or cfg["param_B"] * cfg["param_B_prime"] * cfg["param_b_prime"] <= 12:
            idsz = draw(st.sampled_from([8, 16]))
            combos = [c for c in S.PI2LEV_COMBOS[idsz] if c[0] * c[2] * c[3] > 12]
            Bk, b, Bp, bp = draw(st.sampled_from(combos))
            cfg.update(param_B=Bk, param_b=b, param_B_prime=Bp, param_b_prime=bp, param_identifier_size=idsz)
    elif scheme == "CJJ14.PiBas":
        cfg["_id_size"] = draw(st.sampled_from(ID_SIZES))
    else:
        cfg["param_identifier_size"] = draw(st.sampled_from(ID_SIZES))
    if scheme in ("CGKO06.SSE1", "CGKO06.SSE2"):
        cfg["param_l"] = draw(st.sampled_from([16, 32, 64, 128]))  # wide keyword fields: the PRP halves exceed one digest
    if scheme == "CGKO06.SSE1":
        cfg["param_s"] = draw(st.sampled_from([128, 256, 512]))
        cfg["param_dictionary_size"] = draw(st.sampled_from([0, 3, 64]))
    return cfg


@st.composite
def st_case(draw, scheme):
    cfg = config_for(draw, scheme)
    nkw = draw(st.integers(2, 10))
    pool = draw(st.integers(4, 12 if scheme == "CGKO06.SSE2" else 30))
    share_all = draw(st.booleans())
    shape = []
    if scheme in ("CJJ14.PiBas", "CT14.Pi", "ANSS16.Scheme3") and draw(st.integers(0, 5)) == 0:
        # exactly 256 postings: one setup performs a whole multiple of 256 encryptions (IV sources that cycle stay aligned)
        pool = 64
        per = draw(st.sampled_from([32, 64]))
        for k in range(256 // per):
            shape.append([(k * 7 + j) % 64 for j in range(per)])
        nkw = 0
    for _ in range(nkw):
        n = draw(st.integers(1, min(12, pool)))
        idx = draw(st.lists(st.integers(0, pool - 1), min_size=n, max_size=n, unique=True))
        if share_all and 0 not in idx:
            idx[draw(st.integers(0, len(idx) - 1))] = 0
        shape.append(idx)
    return {"scheme": scheme, "cfg": cfg, "shape": shape, "pool": pool, "content_seed": draw(st.integers(0, 2 ** 32)),
            "kwlen": draw(st.integers(8, 12)) if (cfg.get("param_l", 0) >= 64 and scheme.startswith("CGKO06") and draw(st.booleans()))
            else draw(st.integers(10, 24)), "seed": draw(st.integers(0, 2 ** 48))}


def build_content(case):
    desc = S.DESCS[case["scheme"]]
    cfg = case["cfg"]
    idsz = desc.id_size(cfg)
    src = stream(case["content_seed"], b"c04")
    limit = desc.kw_limit(cfg)
    kwlen = min(case["kwlen"], limit)
    pool = []
    while len(pool) < case["pool"]:
        b = src.read(idsz)
        if any(b) and b not in pool:
            pool.append(b)
    db = {}
    for idx in case["shape"]:
        while True:
            kw = src.read(kwlen)
            if kw[0] != 0 and kw not in db:
                break
        db[kw] = [pool[i] for i in idx]
    return db, pool


def cipher_values(scheme, payload):
    """byte strings of the index that carry SKE ciphertexts (or their random stand-ins)"""
    out = []
    if scheme == "CGKO06.SSE1":
        A, T = payload
        out = list(A)
    elif scheme == "CGKO06.SSE2":
        out = []
    elif scheme in ("CJJ14.PiBas", "CJJ14.PiPack"):
        out = list(payload.values())
    elif scheme in ("CJJ14.PiPtr", "CJJ14.Pi2Lev"):
        D, A = payload
        out = list(D.values()) + [a for a in A if a is not None]
    elif scheme == "CT14.Pi":
        for ht in payload:
            out += list(ht.values())
    elif scheme == "ANSS16.Scheme3":
        HT_S, HT_L = payload
        out = list(HT_S.values())
        for ht in HT_L:
            out += list(ht.values())
    elif scheme == "DP17.Pi":
        HT, A_dict = payload
        for lst in A_dict.values():
            out += list(lst)
    return out


def labels_of(scheme, payload):
    """label-like keys of the index (dict keys)"""
    out = []
    for path, cont in S.tables(payload):
        if isinstance(cont, dict):
            out += [k for k in cont.keys() if isinstance(k, (bytes, int)) and not (isinstance(k, int) and scheme == "DP17.Pi")]
    return out


def blocks_of(values):
    out = []
    for v in values:
        if isinstance(v, (bytes, bytearray)) and len(v) >= 32:
            out += [bytes(v[i:i + 16]) for i in range(0, len(v) - 15, 16)]
    return out


def run_case(case, res=None):
    scheme = case["scheme"]
    desc = S.DESCS[scheme]
    db, pool = build_content(case)
    cfg = S.public_cfg(desc.finalize(case["cfg"], db))
    loader = S.load(scheme)
    with entropy(case["seed"]):
        try:
            sch = loader.SSEScheme(cfg)
            key1 = sch.KeyGen()
            key2 = sch.KeyGen()
            edb1 = sch.EDBSetup(key1, db)
            edb1b = sch.EDBSetup(key1, db)
            edb2 = sch.EDBSetup(key2, db)
            # a brand-new scheme instance (what a restarted client builds) encrypting the same (key, DB) once more
            sch_new = loader.SSEScheme(dict(cfg))
            edb1c = sch_new.EDBSetup(loader.SSEKey.deserialize(key1.serialize(), loader.SSEConfig(dict(cfg))), db)
            raw1, raw1b, raw2, raw1c = edb1.serialize(), edb1b.serialize(), edb2.serialize(), edb1c.serialize()
            # an application that seeds Python's global `random` module (reproducible experiments do) before each of two setups of
            # the same (key, DB): the library may use `random` for WHERE things go, but every stored entry must still be fresh
            import random as _random
            rs = case["seed"] % 1000003
            _random.seed(rs)
            raw_r1 = sch.EDBSetup(key1, db).serialize()
            _random.seed(rs)
            raw_r2 = sch.EDBSetup(key1, db).serialize()
            kws = list(db.keys())
            absent = [hashlib.sha256(b"c04absent%d" % i + kws[0]).digest()[:len(kws[0])] for i in range(2)]
            absent = [a if a[0] else b"\x01" + a[1:] for a in absent]
            toks1 = [sch.TokenGen(key1, w).serialize() for w in kws + absent]
            toks2 = [sch.TokenGen(key2, w).serialize() for w in kws + absent]
        except Exception as e:
            raise stage_violation(scheme, "setup/tokens", e)

    # (a) substring absence
    hay = [("EDB", raw1), ("EDB(second setup)", raw1b), ("EDB(second key)", raw2), ("EDB(fresh instance)", raw1c)] + [("token", t) for t in toks1 + toks2]
    total = sum(len(h) for _, h in hay)
    needles = [("keyword", w) for w in kws]
    if scheme != "CGKO06.SSE2":
        needles += [("identifier", i) for i in {i for lst in db.values() for i in lst}]
    checked = 0
    for kind, n in needles:
        if total * 256.0 ** (-len(n)) >= 1e-15:
            continue  # an accidental occurrence would not be negligible: not asserted for this needle
        checked += 1
        for name, h in hay:
            if n in h:
                raise Violation("%s: a stored %s (%d bytes) occurs in the clear in %s" % (scheme, kind, len(n), name),
                                "%s:leak:%s:%s" % (scheme, kind, name.split("(")[0]))
    if res is not None:
        res.cls("needles_asserted" if checked == len(needles) else "needles_partially_asserted")

    p1, p1b, p2 = S.edb_payload(raw1), S.edb_payload(raw1b), S.edb_payload(raw2)
    # (b) block distinctness inside one index
    b1 = blocks_of(cipher_values(scheme, p1))
    if len(set(b1)) != len(b1):
        raise Violation("%s: two ciphertext blocks of one index are equal (%d blocks, %d distinct)" % (scheme, len(b1), len(set(b1))),
                        "%s:repeated_block" % scheme)
    # (c) disjointness across two setups of the same (key, DB)
    b1b = blocks_of(cipher_values(scheme, p1b))
    inter = set(b1) & set(b1b)
    if inter:
        raise Violation("%s: %d ciphertext blocks are shared by two setups of the same (key, DB)" % (scheme, len(inter)),
                        "%s:blocks_shared_between_setups" % scheme)
    b1c = blocks_of(cipher_values(scheme, S.edb_payload(raw1c)))
    inter = set(b1) & set(b1c)
    if inter:
        raise Violation("%s: %d ciphertext blocks are shared by the setups of two scheme instances for the same (key, DB)" % (scheme, len(inter)),
                        "%s:blocks_shared_between_instances" % scheme)
    if scheme != "CGKO06.SSE2":
        br1 = set(blocks_of(cipher_values(scheme, S.edb_payload(raw_r1))))
        br2 = set(blocks_of(cipher_values(scheme, S.edb_payload(raw_r2))))
        if br1 & br2:
            raise Violation("%s: %d stored blocks are shared by two setups of the same (key, DB) when the application seeds the global "
                            "`random` module identically before each (of %d): stored entries come from a predictable generator" % (
                                scheme, len(br1 & br2), len(br1)), "%s:blocks_shared_when_random_is_seeded" % scheme)
    if case.get("process_boundary") and scheme != "CGKO06.SSE2":
        # the same (key, DB) encrypted by two FRESH interpreters (what two runs of a command-line client do), and by two workers
        # forked from a parent that has already used the library
        from vlib import fresh
        job = {"kind": "setup", "scheme": scheme, "cfg": cfg, "key_hex": key1.serialize().hex(), "db": fresh.db_to_json(db)}
        outs = [fresh.run_job(job, hashseed=11 + i) for i in range(2)]
        forked = fresh.run_job(dict(job, kind="setup_forked"), hashseed=29)
        from vlib.runner import HarnessError
        for o in outs + [forked]:
            if "error" in o:
                raise HarnessError("fresh-interpreter setup failed: %s" % o["error"])
            if "exception" in o:
                raise Violation("%s: setup in a fresh interpreter raised: %s" % (scheme, o["exception"]), "%s:fresh_interpreter_exception" % scheme)
        sets = [set(blocks_of(cipher_values(scheme, S.edb_payload(bytes.fromhex(o["edb_hex"]))))) for o in outs]
        if sets[0] & sets[1]:
            raise Violation("%s: %d ciphertext blocks are shared by the indexes two fresh interpreters build from the same (key, DB)" % (
                scheme, len(sets[0] & sets[1])), "%s:blocks_shared_between_processes" % scheme)
        if any(x.startswith("ERROR") for x in forked["edb_hex_list"]):
            raise Violation("%s: setup in a forked worker failed: %s" % (scheme, forked["edb_hex_list"]), "%s:forked_worker_exception" % scheme)
        fsets = [set(blocks_of(cipher_values(scheme, S.edb_payload(bytes.fromhex(x))))) for x in forked["edb_hex_list"]]
        if fsets[0] & fsets[1]:
            raise Violation("%s: %d ciphertext blocks are shared by the indexes of two workers forked from one parent" % (
                scheme, len(fsets[0] & fsets[1])), "%s:blocks_shared_between_forked_workers" % scheme)
        if res is not None:
            res.cls("process_boundary_checked")
    if scheme != "CGKO06.SSE2" and b1 and raw1 == raw1b:
        raise Violation("%s: two setups of the same (key, DB) are byte-identical" % scheme, "%s:identical_setups" % scheme)
    # (d) keyed-ness of labels and tokens
    l1, l2 = set(labels_of(scheme, p1)), set(labels_of(scheme, p2))
    if l1 and l2:
        width = min((len(k) if isinstance(k, bytes) else max(1, k.bit_length() // 8)) for k in (l1 | l2))
        if len(l1) * len(l2) * 256.0 ** (-width) < 1e-15:  # otherwise an accidental equal pair would not be negligible
            if l1 & l2:
                raise Violation("%s: %d labels are equal under two different keys" % (scheme, len(l1 & l2)), "%s:unkeyed_label" % scheme)
            if res is not None:
                res.cls("label_keyedness_asserted")
    for t1, t2 in zip(toks1, toks2):
        if t1 == t2:
            raise Violation("%s: the token of a keyword is the same under two different keys" % scheme, "%s:unkeyed_token" % scheme)
    if len(set(toks1)) != len(toks1):
        raise Violation("%s: two different keywords have the same token" % scheme, "%s:token_collision" % scheme)
    return len(b1)


def shape_stats(case):
    occ = {}
    for idx in case["shape"]:
        for i in idx:
            occ[i] = occ.get(i, 0) + 1
    return max(occ.values())


def body(case, res):
    case.setdefault("process_boundary", case["seed"] % 7 == 0 and sum(len(x) for x in case["shape"]) <= 60)
    nblocks = [0]
    maxocc = shape_stats(case)
    try:
        nblocks[0] = run_case(case, res)
    finally:
        nt = maxocc >= 3 or nblocks[0] >= 32
        cl = ["scheme:" + case["scheme"], "max_id_occurrence:" + ("1" if maxocc == 1 else "2" if maxocc == 2 else ">=3"),
              "blocks:" + ("0" if nblocks[0] == 0 else "<32" if nblocks[0] < 32 else ">=32")]
        if maxocc == len(case["shape"]):
            cl.append("one_id_under_every_keyword")
        res.count([case["scheme"], sorted((k, repr(v)) for k, v in case["cfg"].items()), case["shape"]], nt, cl,
                  sample={"scheme": case["scheme"], "cfg": S.public_cfg(case["cfg"]), "shape": case["shape"], "kwlen": case["kwlen"],
                          "content_seed": case["content_seed"], "seed": case["seed"]})


def shards(tier):
    out = [{"kind": "hyp", "scheme": s, "i": 0} for s in S.SCHEMES]
    if tier == "thorough":
        out += [{"kind": "hyp", "scheme": s, "i": 1} for s in S.SCHEMES]
    out += [{"kind": "long_run", "scheme": s} for s in ("CJJ14.PiBas", "CJJ14.PiPack")]
    return out


def long_run(scheme, seed, tier, res):
    """one process, one key, one database, MANY setups: a stored block of any generation never comes back in a later one (a pooled
    or periodic source of IVs repeats only after tens of thousands of encryptions)"""
    import hashlib
    loader = S.load(scheme)
    cfg = S.default_config(scheme)
    cfg["param_identifier_size"] = 8
    if "param_B" in cfg:
        cfg["param_B"] = 1      # one encryption per posting
    per, gens = (625, 130 if tier == "quick" else 400)
    db = {b"kw%d" % k: [hashlib.sha256(b"%d/%d" % (k, i)).digest()[:8] for i in range(125)] for k in range(per // 125)}
    seen = {}
    with entropy(seed):
        sch = loader.SSEScheme(cfg)
        key = sch.KeyGen()
        for g in range(gens):
            blocks = set(blocks_of(cipher_values(scheme, S.edb_payload(sch.EDBSetup(key, db).serialize()))))
            res.count([scheme, "long_run", g], g > 0, ["scheme:" + scheme, "long_run_generation"], sample={"scheme": scheme, "long_run": "generation %d of %d postings" % (g, per)} if g < 2 else None)
            for b in blocks:
                if b in seen:
                    raise Violation("%s: a stored block of setup #%d of the same (key, DB) appears again in setup #%d of the same process "
                                    "(%d postings per setup)" % (scheme, seen[b], g, per), "%s:block_repeats_after_many_setups" % scheme)
            for b in blocks:
                seen[b] = g


def run_shard(spec, seed, tier):
    res = ShardResult()
    if spec["kind"] == "long_run":
        try:
            long_run(spec["scheme"], seed, tier, res)
        except Violation as v:
            res.add_violation({"scheme": spec["scheme"], "long_run": True, "seed": seed, "tier": tier}, str(v), v.bucket)
        return res
    n = 100 if tier == "quick" else 500
    hyp.search(res, st_case(spec["scheme"]), body, seed, n)
    return res


def replay(case):
    try:
        if case.get("long_run"):
            long_run(case["scheme"], case["seed"], case.get("tier", "quick"), ShardResult())
            return None
        run_case(case)
    except Violation as v:
        return str(v)
    return None

"""C18 — Bitset behaves like a fixed-width big-endian bit vector (MSB-first list-of-bits model)."""
import itertools

from hypothesis import strategies as st

from vlib import hyp
from vlib.runner import ShardResult, Violation

ID = "C18"
LEVEL = "exploration"
RULE = ("cases are (operation, operand constructors, values, lengths, k/shift/slice) tuples; exhaustive over all values "
        "of every length <= 8 for unary ops and all pairs of lengths <= 6 for binary ops; beyond that Hypothesis draws "
        "lengths 0..300 with values from random and the boundary family {0,1,2^k-1,2^k,2^k+1}; oracle = MSB-first "
        "list-of-bits model (value and length); iteration is also checked with two iterators alive on the same object (zip(x,x), "
        "an iterator suspended after k bits and resumed after another full iteration, nested loops). Non-trivial = some operand longer than 8 bits or built without explicit "
        "length, or a binary op on unequal lengths; distinct = distinct case tuple.")
ASSUMPTIONS = ["negative indices, __setitem__, from_sequence and plain-int right operands are outside the stated property",
               "the reference model is written independently on Python lists of 0/1"]

UNARY = ["roundtrip", "invert", "str", "bytes", "iter", "eq_copy", "half", "half_np", "bit_length"]
UNARY_K = ["higher", "lower", "lshift", "rshift", "index", "higher_over", "lower_over"]
BINARY = ["and", "or", "xor", "concat", "eq", "concat_split"]
OTHER = ["slice", "ctor_wide", "ctor_nolen", "half_int", "ctor_bytes_nolen", "chain", "chain", "chain"]


# ---------------------------------------------------------------------------------------------------------
# model
# ---------------------------------------------------------------------------------------------------------
def bits_of(v, n):
    return [(v >> (n - 1 - i)) & 1 for i in range(n)]


def to_int(bits):
    x = 0
    for b in bits:
        x = (x << 1) | b
    return x


def zext(bits, n):
    return [0] * (n - len(bits)) + bits


# ---------------------------------------------------------------------------------------------------------
# real objects
# ---------------------------------------------------------------------------------------------------------
def build(spec):
    """spec = [value, length, ctor]; returns (real Bitset, model bits)."""
    from toolkit.bits import Bitset
    v, n, ctor = spec
    if ctor == "int_len":
        return Bitset(v, n), bits_of(v, n)
    if ctor == "int":  # minimal width
        return Bitset(v), bits_of(v, v.bit_length())
    if ctor == "bytes_len":
        return Bitset(v.to_bytes((n + 7) // 8, "big"), n), bits_of(v, n)
    if ctor == "bytes_pad_len":  # leading zero bytes do not change the value
        return Bitset(b"\x00\x00" + v.to_bytes((n + 7) // 8, "big"), n), bits_of(v, n)
    if ctor == "bitset_len":
        return Bitset(Bitset(v, n), n), bits_of(v, n)
    if ctor == "bitset":
        return Bitset(Bitset(v, n)), bits_of(v, v.bit_length())
    raise ValueError(ctor)


def same(real, model_bits, what):
    from toolkit.bits import Bitset
    if not isinstance(real, Bitset):
        raise Violation("%s: result is %r, not a Bitset" % (what, type(real).__name__), what + ":type")
    if len(real) != len(model_bits):
        raise Violation("%s: length %d, model %d" % (what, len(real), len(model_bits)), what + ":length")
    if int(real) != to_int(model_bits):
        raise Violation("%s: value %d, model %d" % (what, int(real), to_int(model_bits)), what + ":value")


def expect_raises(fn, exc, what):
    try:
        r = fn()
    except exc:
        return
    except Exception as e:
        raise Violation("%s: raised %s instead of %s" % (what, type(e).__name__, exc.__name__), what + ":wrongexc")
    raise Violation("%s: accepted (returned %r)" % (what, r), what + ":accepted")


def run_case(case):
    """Executes one case against the real Bitset; raises Violation on disagreement with the model."""
    from toolkit.bits import Bitset
    from toolkit import bits_utils
    op = case["op"]
    try:
        if op == "ctor_wide":
            v, n = case["a"][0], case["a"][1]
            if case["a"][2] == "bytes_len":
                raw = v.to_bytes((v.bit_length() + 7) // 8, "big")
                expect_raises(lambda: Bitset(raw, n), ValueError, "ctor_wide")
            else:
                expect_raises(lambda: Bitset(v, n), ValueError, "ctor_wide")
            return
        if op == "half_int":
            v = case["a"][0]
            n = v.bit_length()
            h = (n + 1) // 2
            mb = bits_of(v, n)
            left, right = bits_utils.half_bits(v)
            same(left, zext(mb[:n - h], h), "half_bits(int).left")
            same(right, mb[n - h:], "half_bits(int).right")
            left, right = bits_utils.half_bits_not_padding(v)
            same(left, mb[:n - h], "half_bits_not_padding(int).left")
            same(right, mb[n - h:], "half_bits_not_padding(int).right")
            return
        a, ma = build(case["a"])
        n = len(ma)
        same(a, ma, "ctor[%s]" % case["a"][2])
        _operands = [(a, list(ma), "first operand")]
        if op == "roundtrip":
            if int(a) != to_int(ma):
                raise Violation("int(): %d vs %d" % (int(a), to_int(ma)), "int")
            if len(a) != n or a.bit_length() != n:
                raise Violation("len(): %d vs %d" % (len(a), n), "len")
        elif op == "bit_length":
            if a.bit_length() != n:
                raise Violation("bit_length(): %d vs %d" % (a.bit_length(), n), "bit_length")
        elif op == "invert":
            same(~a, [1 - b for b in ma], "invert")
        elif op == "str":
            s = str(a)
            if s != "".join(str(b) for b in ma):
                raise Violation("str(): %r vs model %r" % (s, "".join(str(b) for b in ma)), "str")
        elif op == "bytes":
            got = bytes(a)
            want = to_int(ma).to_bytes((n + 7) // 8, "big")
            if got != want:
                raise Violation("bytes(): %r vs model %r" % (got, want), "bytes")
        elif op == "iter":
            got = list(a)
            if got != [bool(b) for b in ma] or any(type(x) is not bool for x in got):
                raise Violation("iter(): %r vs model %r" % (got, ma), "iter")
            # iterators are independent values: several may be alive over the same bit string
            want = [bool(b) for b in ma]
            if list(zip(a, a)) != list(zip(want, want)):
                raise Violation("zip(x, x) gives %d pairs %r..., the model %d" % (len(list(zip(a, a))), list(zip(a, a))[:3], n), "iter:zip_self")
            k = case.get("k", 1) % (n + 1)
            it1 = iter(a)
            head = [next(it1) for _ in range(k)]
            it2 = iter(a)
            full = list(it2)
            probe = (True in a, len(str(a)))   # other uses of the object while it1 is suspended
            tail = list(it1)
            if head + tail != want or full != want:
                raise Violation("an iterator suspended after %d of %d bits and resumed after another full iteration yields %r + %r, a second "
                                "iterator %r; model %r" % (k, n, head, tail, full, want), "iter:two_live_iterators")
            if n <= 40 and sum(1 for _x in a for _y in a) != n * n:
                raise Violation("nested iteration over the same %d-bit string visits %d pairs, expected %d" % (
                    n, sum(1 for _x in a for _y in a), n * n), "iter:nested")
        elif op == "eq_copy":
            c = Bitset(to_int(ma), n) if n else Bitset(0, 0)
            if n and not (a == c):
                raise Violation("==: equal value/length compare unequal", "eq_copy")
        elif op == "half":
            h = (n + 1) // 2
            left, right = bits_utils.half_bits(a)
            same(left, zext(ma[:n - h], h), "half_bits.left")
            same(right, ma[n - h:], "half_bits.right")
            if n:
                same(left.get_lower_bits(n - h) + right, ma, "half_bits.recombine")
        elif op == "half_np":
            h = (n + 1) // 2
            left, right = bits_utils.half_bits_not_padding(a)
            same(left, ma[:n - h], "half_bits_not_padding.left")
            same(right, ma[n - h:], "half_bits_not_padding.right")
            same(left + right, ma, "half_bits_not_padding.recombine")
        elif op == "higher":
            k = case["k"] % (n + 1)
            same(a.get_higher_bits(k), ma[:k], "get_higher_bits")
        elif op == "lower":
            k = case["k"] % (n + 1)
            same(a.get_lower_bits(k), ma[n - k:], "get_lower_bits")
        elif op == "higher_over":
            k = n + 1 + case["k"] % 3
            expect_raises(lambda: a.get_higher_bits(k), ValueError, "get_higher_bits(k>len)")
        elif op == "lower_over":
            k = n + 1 + case["k"] % 3
            expect_raises(lambda: a.get_lower_bits(k), ValueError, "get_lower_bits(k>len)")
        elif op == "lshift":
            k = case["k"] % (n + 4)
            same(a << k, ((ma + [0] * k)[-n:]) if n else [], "lshift")
        elif op == "rshift":
            k = case["k"] % (n + 4)
            same(a >> k, ([0] * k + ma)[:n], "rshift")
        elif op == "index":
            if n == 0:
                return
            i = case["k"] % n
            got = a[i]
            if got is not bool(ma[i]):
                raise Violation("a[%d] = %r, model %r" % (i, got, bool(ma[i])), "index")
        elif op == "slice":
            s = slice(*case["slice"])
            got = a[s]
            want = [bool(b) for b in ma[s]]
            if got != want:
                raise Violation("a[%r] = %r, model %r" % (s, got, want), "slice")
        elif op == "chain":
            # a multi-step history: every intermediate result feeds the next operation and is compared with the model
            cur, mcur = a, ma
            for i, st_ in enumerate(case["steps"]):
                k = st_[0]
                nn = len(mcur)
                if k == "invert":
                    cur, mcur = ~cur, [1 - x for x in mcur]
                elif k == "lshift":
                    sh = st_[1] % (nn + 2)
                    cur, mcur = cur << sh, ((mcur + [0] * sh)[-nn:]) if nn else []
                elif k == "rshift":
                    sh = st_[1] % (nn + 2)
                    cur, mcur = cur >> sh, ([0] * sh + mcur)[:nn]
                elif k in ("and", "or", "xor", "concat"):
                    o, mo = build(st_[1])
                    _operands.append((o, list(mo), "operand of chain step %d" % i))
                    if k == "concat":
                        cur, mcur = cur + o, mcur + mo
                    else:
                        m = max(len(mcur), len(mo))
                        za, zb = zext(mcur, m), zext(mo, m)
                        f = {"and": lambda x, y: x & y, "or": lambda x, y: x | y, "xor": lambda x, y: x ^ y}[k]
                        cur = {"and": lambda: cur & o, "or": lambda: cur | o, "xor": lambda: cur ^ o}[k]()
                        mcur = [f(x, y) for x, y in zip(za, zb)]
                elif k == "higher":
                    kk = st_[1] % (nn + 1)
                    cur, mcur = cur.get_higher_bits(kk), mcur[:kk]
                elif k == "lower":
                    kk = st_[1] % (nn + 1)
                    cur, mcur = cur.get_lower_bits(kk), mcur[nn - kk:]
                elif k in ("half_left", "half_right", "halfnp_left", "halfnp_right"):
                    h = (nn + 1) // 2
                    fn = bits_utils.half_bits if k.startswith("half_") else bits_utils.half_bits_not_padding
                    left, right = fn(cur)
                    if k.endswith("left"):
                        cur = left
                        mcur = zext(mcur[:nn - h], h) if k.startswith("half_") else mcur[:nn - h]
                    else:
                        cur, mcur = right, mcur[nn - h:]
                else:
                    raise ValueError(k)
                same(cur, mcur, "chain step %d (%s)" % (i, k))
                _operands.append((cur, list(mcur), "result of chain step %d (an operand of the next)" % i))
                if str(cur) != "".join(str(x) for x in mcur) or list(cur) != [bool(x) for x in mcur]:
                    raise Violation("chain step %d (%s): str/iter of the intermediate result differ from the model" % (i, k), "chain:str_iter")
        elif op in BINARY:
            b, mb = build(case["b"])
            same(b, mb, "ctor[%s]" % case["b"][2])
            _operands.append((b, list(mb), "second operand"))
            m = max(len(ma), len(mb))
            za, zb = zext(ma, m), zext(mb, m)
            if op == "and":
                same(a & b, [x & y for x, y in zip(za, zb)], "and")
            elif op == "or":
                same(a | b, [x | y for x, y in zip(za, zb)], "or")
            elif op == "xor":
                same(a ^ b, [x ^ y for x, y in zip(za, zb)], "xor")
            elif op == "concat":
                same(a + b, ma + mb, "concat")
                same(a.concat(b), ma + mb, "concat()")
            elif op == "concat_split":
                c = a + b
                same(c.get_higher_bits(len(ma)), ma, "(a+b).higher(len a)")
                same(c.get_lower_bits(len(mb)), mb, "(a+b).lower(len b)")
                if not (c.get_higher_bits(len(ma)) == a) and len(ma):
                    raise Violation("(a+b).higher(len a) != a", "concat_split_eq")
            elif op == "eq":
                want = (ma == mb)
                got = (a == b)
                if bool(got) != want:
                    raise Violation("== gives %r, model %r" % (got, want), "eq")
        elif op == "ctor_nolen":
            pass  # construction already compared by same() above
        elif op == "ctor_bytes_nolen":
            v = case["a"][0]
            raw = v.to_bytes((v.bit_length() + 7) // 8 + case["k"] % 3, "big")
            same(Bitset(raw), bits_of(v, v.bit_length()), "ctor[bytes,nolen]")
        else:
            raise ValueError(op)
        # bit strings are values: no operation may change an operand it was given (value, length, text)
        for obj, mbits, what in _operands:
            same(obj, mbits, "%s after %s" % (what, op))
            if str(obj) != "".join(str(x) for x in mbits):
                raise Violation("%s after %s: str() differs from the model" % (what, op), "operand_changed:str")
    except Violation:
        raise
    except Exception as e:
        raise Violation("%s raised %s: %s" % (op, type(e).__name__, e), "%s:exc:%s" % (op, type(e).__name__))


# ---------------------------------------------------------------------------------------------------------
# generators
# ---------------------------------------------------------------------------------------------------------
@st.composite
def st_value_for_length(draw, n):
    if n == 0:
        return 0
    kind = draw(st.sampled_from(["rand", "rand", "zero", "one", "ones", "top", "top1", "pow", "powm1", "powp1"]))
    if kind == "rand":
        return draw(st.integers(0, (1 << n) - 1))
    if kind == "zero":
        return 0
    if kind == "one":
        return 1
    if kind == "ones":
        return (1 << n) - 1
    if kind == "top":
        return 1 << (n - 1)
    if kind == "top1":
        return (1 << (n - 1)) | 1
    k = draw(st.integers(0, n - 1))
    v = {"pow": 1 << k, "powm1": (1 << k) - 1, "powp1": (1 << k) + 1}[kind]
    return v if v.bit_length() <= n else (1 << n) - 1


@st.composite
def st_operand(draw, max_len=300):
    n = draw(st.one_of(st.integers(0, 16), st.integers(0, max_len),
                       st.sampled_from([1, 7, 8, 9, 47, 48, 49, 53, 54, 63, 64, 65, 128, 159, 160, 161, 256, 300])))
    n = min(n, max_len)
    v = draw(st_value_for_length(n))
    if n == 0:
        ctor = "int_len"  # Bitset(0, 0)
    else:
        ctor = draw(st.sampled_from(["int_len", "int_len", "int", "bytes_len", "bytes_pad_len", "bitset_len", "bitset"]))
    return [v, n, ctor]


@st.composite
def st_case(draw):
    op = draw(st.sampled_from(UNARY + UNARY_K + BINARY + OTHER))
    case = {"op": op}
    if op == "ctor_wide":
        n = draw(st.integers(1, 300))
        extra = draw(st.integers(1, 9))
        v = (1 << (n + extra - 1)) | draw(st.integers(0, (1 << (n + extra - 1)) - 1))
        if draw(st.integers(0, 2)) == 0:
            v = draw(st.sampled_from([1 << n, (1 << n) + 1, (1 << (n + 1)) - 1]))   # the first values that do not fit
        case["a"] = [v, n, draw(st.sampled_from(["int_len", "int_len", "bytes_len"]))]
        return case
    if op in ("half_int", "ctor_bytes_nolen"):
        k = draw(st.integers(1, 300))
        v = draw(st.one_of(st.integers(1, (1 << k) - 1), st.sampled_from([(1 << k) - 1, 1 << (k - 1), (1 << (k - 1)) + 1])))
        case["a"] = [v, v.bit_length(), "int"]
        case["k"] = draw(st.integers(0, 2))
        return case
    if op == "ctor_nolen":
        k = draw(st.integers(1, 400))
        v = draw(st.sampled_from([(1 << k) - 1, 1 << k, (1 << k) + 1, max(1, (1 << k) - 2)]))
        case["a"] = [v, v.bit_length(), draw(st.sampled_from(["int", "bitset"]))]
        return case
    case["a"] = draw(st_operand())
    if op == "chain":
        if draw(st.booleans()):
            case["a"] = draw(st_operand(max_len=12))
        steps = []
        for _ in range(draw(st.integers(2, 5))):
            k = draw(st.sampled_from(["invert", "invert", "lshift", "rshift", "and", "or", "xor", "xor", "concat", "higher", "lower",
                                      "half_left", "half_right", "halfnp_left", "halfnp_right"]))
            if k in ("lshift", "rshift", "higher", "lower"):
                steps.append([k, draw(st.integers(0, 310))])
            elif k in ("and", "or", "xor", "concat"):
                steps.append([k, draw(st_operand(max_len=12 if case["a"][1] <= 12 else 300))])
            else:
                steps.append([k])
        case["steps"] = steps
        return case
    if op in UNARY_K or op == "iter":
        case["k"] = draw(st.integers(0, 310))
    if op in BINARY:
        if draw(st.booleans()):
            b = draw(st_operand())
        else:  # equal lengths
            n = case["a"][1]
            b = [draw(st_value_for_length(n)), n, "int_len"]
        if op == "eq" and draw(st.integers(0, 3)) == 0:
            b = list(case["a"])
        case["b"] = b
    if op == "slice":
        n = case["a"][1]
        lim = n + 3
        case["slice"] = [draw(st.one_of(st.none(), st.integers(-lim, lim))),
                         draw(st.one_of(st.none(), st.integers(-lim, lim))),
                         draw(st.one_of(st.none(), st.integers(-4, 4).filter(lambda x: x != 0)))]
    return case


def is_nontrivial(case):
    ops = [case["a"]] + ([case["b"]] if "b" in case else [])
    if case["op"] == "chain":
        return True
    if any(o[1] > 8 or o[2] in ("int", "bitset") for o in ops):
        return True
    if "b" in case and case["a"][1] != case["b"][1]:
        return True
    return False


def classes_of(case):
    n = case["a"][1]
    out = ["op:" + case["op"], "ctor:" + case["a"][2]]
    out.append("len:" + ("0" if n == 0 else "1-8" if n <= 8 else "9-64" if n <= 64 else "65-300" if n <= 300 else ">300"))
    if "b" in case:
        out.append("binary:" + ("equal_len" if case["a"][1] == case["b"][1] else "unequal_len"))
    return out


def body(case, res):
    res.count(case, is_nontrivial(case), classes_of(case), sample=case)
    run_case(case)


# ---------------------------------------------------------------------------------------------------------
# shards
# ---------------------------------------------------------------------------------------------------------
def shards(tier):
    n_h = 8 if tier == "quick" else 15
    out = [{"kind": "exhaustive"}, {"kind": "boundary"}]
    out += [{"kind": "hyp", "i": i} for i in range(n_h)]
    if tier == "thorough":
        out.append({"kind": "fuzz"})
    return out


def _exhaustive(res, tier):
    max_unary = 8
    max_pair = 5 if tier == "quick" else 6
    first = {}

    def run(case):
        res.count(case, False, ["exhaustive:" + case["op"]])
        try:
            run_case(case)
        except Violation as v:
            if v.bucket not in first:
                first[v.bucket] = (case, str(v))

    for n in range(0, max_unary + 1):
        for v in range(1 << n):
            for ctor in (["int_len", "bytes_len", "bitset_len"] if n else ["int_len"]):
                a = [v, n, ctor]
                for op in UNARY:
                    run({"op": op, "a": a})
                for op in ("higher", "lower", "lshift", "rshift"):
                    for k in range(0, n + 4):
                        run({"op": op, "a": a, "k": k})
                for k in range(n):
                    run({"op": "index", "a": a, "k": k})
                run({"op": "higher_over", "a": a, "k": 0})
                run({"op": "lower_over", "a": a, "k": 0})
            if v:
                run({"op": "ctor_nolen", "a": [v, v.bit_length(), "int"]})
                run({"op": "half_int", "a": [v, v.bit_length(), "int"], "k": 0})
    if tier != "quick":
        for n in range(0, 7):
            for v in range(1 << n):
                for s in itertools.product([None, -n - 1, -1, 0, 1, n // 2, n, n + 1], [None, -n - 1, -1, 0, 1, n // 2, n, n + 1],
                                           [None, -2, -1, 1, 2, 3]):
                    run({"op": "slice", "a": [v, n, "int_len"], "slice": list(s)})
    # all two-step histories over {invert, lshift 1, rshift 1, xor b, half_left, lower n-1} for lengths <= 4 (operator results
    # carry state of their own, so a second operation on them is a different code path from one on a fresh object)
    two = [["invert"], ["lshift", 1], ["rshift", 1], ["half_left"], ["halfnp_left"], ["lower", 3], ["higher", 2]]
    for n in range(0, 5):
        for v in range(1 << n):
            for vb in range(1 << n):
                firsts = two + [["xor", [vb, n, "int_len"]], ["and", [vb, n, "int_len"]], ["concat", [vb, n, "int_len"]]]
                for s1 in firsts:
                    for s2 in two:
                        run({"op": "chain", "a": [v, n, "int_len"], "steps": [s1, s2]})
                if n == 0:
                    break
    for na in range(0, max_pair + 1):
        for nb in range(0, max_pair + 1):
            for va in range(1 << na):
                for vb in range(1 << nb):
                    for op in BINARY:
                        run({"op": op, "a": [va, na, "int_len"], "b": [vb, nb, "int_len"]})
    res.exhaustive = True
    res.extra["exhaustive_cases"] = res.evaluations
    res.extra["exhaustive_bounds"] = "unary ops: all values of lengths 0..%d x 3 constructors; binary ops: all pairs of lengths 0..%d" % (
        max_unary, max_pair)
    for bucket, (case, msg) in first.items():
        res.add_violation(case, msg, bucket)


def _boundary(res):
    first = {}

    def run(case):
        res.count(case, is_nontrivial(case), classes_of(case) + ["boundary"], sample=case)
        try:
            run_case(case)
        except Violation as v:
            if v.bucket not in first:
                first[v.bucket] = (case, str(v))

    for k in range(1, 401):
        for v in (max(1, (1 << k) - 1), 1 << k, (1 << k) + 1):
            n = v.bit_length()
            run({"op": "ctor_nolen", "a": [v, n, "int"]})
            run({"op": "ctor_nolen", "a": [v, n, "bitset"]})
            run({"op": "half_int", "a": [v, n, "int"], "k": 0})
            run({"op": "ctor_bytes_nolen", "a": [v, n, "int"], "k": k})
            for op in ("roundtrip", "invert", "bytes", "str", "half", "half_np"):
                run({"op": op, "a": [v, n, "int_len"]})
                run({"op": op, "a": [v, n + k % 5, "int_len"]})
            run({"op": "concat_split", "a": [v, n, "int_len"], "b": [(1 << (k // 2)) | 1, k // 2 + 1, "int_len"]})
            run({"op": "ctor_wide", "a": [v, n - 1, "int_len"]}) if n > 1 else None
    for bucket, (case, msg) in first.items():
        res.add_violation(case, msg, bucket)


def _fuzz(res, seed):
    from vlib import simple
    simple.fuzz_stage(res, "props.c18", seed, 60000)


def run_shard(spec, seed, tier):
    res = ShardResult()
    if spec["kind"] == "exhaustive":
        _exhaustive(res, tier)
    elif spec["kind"] == "boundary":
        _boundary(res)
    elif spec["kind"] == "fuzz":
        _fuzz(res, seed)
    else:
        n = 4000 if tier == "quick" else 60000
        hyp.search(res, st_case(), body, seed, n)
    return res


FUZZ_STRATEGY = st_case


def fuzz_body(case):
    run_case(case)


def replay(case):
    try:
        run_case(case)
    except Violation as v:
        return str(v)
    return None

"""C19 — SPFLBArray behaves like a list of left-zero-padded fixed-size items, on disk and after reopen."""
import os
import shutil
import tempfile

from hypothesis import strategies as st

from vlib import hyp, simple
from vlib.runner import ShardResult, Violation

ID = "C19"
LEVEL = "exploration"
RULE = ("a case is (array_len 1..40, item_size 1..9, items_per_file 1..array_len+2, creation via create|from_list, operation "
        "history up to 25 (quick) / 40 (thorough) steps) drawn by Hypothesis; operations: get/set by index in and out of range "
        "(negative too), slice get/set/delete with arbitrary start/stop/step, short/long value lists, invalid items (oversized, "
        "str, int, None, list) alone and in the middle of a slice value list, del, clear, iteration, `in`, len, close+open, "
        "use-after-close, context-manager exit, an iterator kept alive across other operations (compared step by step with a list iterator "
        "over the model). Oracle: list-of-padded-items model compared after every step (full read after "
        "every failing op) plus the directory invariant. Non-trivial = history has a reopen and a negative-index or slice op on "
        "an array whose length is not a multiple of the chunk size; distinct = distinct (parameters, history).")
ASSUMPTIONS = ["a refusal is any raised exception (IndexError / ValueError / TypeError in practice)",
               "the scratch directory is private to the case"]


def B(h):
    return bytes.fromhex(h)


def decode_value(v):
    """value spec -> python object handed to the array; ('b', hex) bytes, ('ba', hex) bytearray, ('s', text), ('i', n), ('none',), ('l',)"""
    t = v[0]
    if t == "b":
        return B(v[1])
    if t == "ba":
        return bytearray(B(v[1]))
    if t == "s":
        return v[1]
    if t == "i":
        return v[1]
    if t == "none":
        return None
    if t == "l":
        return [1, 2]
    if t == "mv":
        return memoryview(b"v")
    if t == "f":
        return 1.5
    raise ValueError(t)


def value_valid(v, item_size):
    return v[0] in ("b", "ba") and len(B(v[1])) <= item_size


def pad(b, item_size):
    return b"\x00" * (item_size - len(b)) + bytes(b)


class Idx:
    """an index that is not an int but supports the index protocol (what numpy integers and friends are): lists accept it"""

    def __init__(self, i):
        self.i = i

    def __index__(self):
        return self.i


class TooGreedy(Exception):
    pass


def endless(values, limit):
    """an endless stream of values (cycled); a consumer that takes more than `limit` items -- far more than any slice of the array
    has room for -- gets an exception instead of a hang"""
    n = 0
    while True:
        for v in values:
            n += 1
            if n > limit:
                raise TooGreedy("the slice assignment consumed more than %d values from its iterable" % limit)
            yield v


class Run:
    def __init__(self, case):
        self.case = case
        self.n, self.item, self.chunk = case["len"], case["item"], case["chunk"]
        self.dir = tempfile.mkdtemp(prefix="ssepy-c19-")
        # the array's path is the caller's choice: names with characters that templates, globs and format strings treat specially
        self.name = case.get("name", "arr")
        self.path = os.path.join(self.dir, self.name)
        # a second array of the same geometry lives next door (own directory) while the history runs
        self.dir2 = tempfile.mkdtemp(prefix="ssepy-c19b-")
        self.arr2 = None
        self.model2 = None
        self.arr = None
        self.model = None

    def fail(self, step, msg, bucket):
        raise Violation("step %d %r: %s" % (step, self.case["ops"][step] if step >= 0 else "create", msg), bucket)

    def create(self):
        from data_persistence.persistent_array import SPFLBArray
        if self.case["create"] == "create":
            self.arr = SPFLBArray.create(self.path, item_size=self.item, array_len=self.n, item_num_in_one_file=self.chunk)
            self.model = [b"\x00" * self.item] * self.n
        else:
            init = [B(x) for x in self.case["init"]]
            self.arr = SPFLBArray.from_list(init, self.path, chunk_size=self.chunk, item_size=self.item, list_len=self.n)
            self.model = [pad(x, self.item) for x in init] + [b"\x00" * self.item] * (self.n - len(init))
        self.model = list(self.model)

    def check_dir(self, step):
        nfiles = -(-self.n // self.chunk)
        allowed = {self.name + "_meta"} | {"%s_%d" % (self.name, k) for k in range(nfiles)}
        got = set(os.listdir(self.dir))
        if not got <= allowed:
            self.fail(step, "unexpected files %r in the array's directory" % sorted(got - allowed), "dir:stray")
        if self.name + "_meta" not in got:
            self.fail(step, "meta file missing", "dir:meta")

    def full_read(self, step, why):
        got = self.arr[:]
        if got != self.model:
            bad = [i for i, (g, m) in enumerate(zip(got, self.model)) if g != m][:5]
            self.fail(step, "%s: full read differs from the model at indices %r (len %d vs %d)" % (why, bad, len(got), len(self.model)),
                      "state:" + why)

    def must_raise(self, step, fn, what):
        try:
            r = fn()
        except Exception:
            return
        self.fail(step, "%s did not raise (returned %r)" % (what, r), "noraise:" + what)

    def reopen(self):
        from data_persistence.persistent_array import SPFLBArray
        self.arr.close()
        self.arr = SPFLBArray.open(self.path)

    def closed_ops(self, step):
        a = self.arr
        a.close()
        self.must_raise(step, lambda: a[0], "closed:get")
        self.must_raise(step, lambda: a[-1], "closed:get_neg")
        self.must_raise(step, lambda: a.__setitem__(0, b"\x01"), "closed:set")
        self.must_raise(step, lambda: a.__delitem__(0), "closed:del")
        self.must_raise(step, lambda: a[:], "closed:getslice")
        self.must_raise(step, lambda: a.__setitem__(slice(None), [b"\x01"]), "closed:setslice")
        self.must_raise(step, lambda: len(a), "closed:len")
        self.must_raise(step, lambda: list(iter(a)), "closed:iter")
        self.must_raise(step, lambda: (b"\x01" in a), "closed:in")
        self.must_raise(step, lambda: a.clear(), "closed:clear")
        self.must_raise(step, lambda: a.item_size, "closed:item_size")
        a.close()  # closing twice is allowed
        from data_persistence.persistent_array import SPFLBArray
        self.arr = SPFLBArray.open(self.path)

    def step(self, k, op):
        a, m, n = self.arr, self.model, self.n
        t = op[0]
        if t == "get":
            i = op[1]
            if len(op) > 2 and op[2] == "obj":
                if -n <= i < n:
                    got = a[Idx(i)]
                    if got != m[i]:
                        self.fail(k, "a[<index object %d>] = %r, model %r" % (i, got, m[i]), "get:index_object")
                else:
                    self.must_raise(k, lambda: a[Idx(i)], "get_out_of_range")
            elif -n <= i < n:
                got = a[i]
                if got != m[i]:
                    self.fail(k, "a[%d] = %r, model %r" % (i, got, m[i]), "get:neg" if i < 0 else "get")
            else:
                self.must_raise(k, lambda: a[i], "get_out_of_range")
                self.full_read(k, "after_failed_get")
        elif t == "set":
            i, v = op[1], op[2]
            val = decode_value(v)
            if -n <= i < n and value_valid(v, self.item):
                a[Idx(i) if len(op) > 3 and op[3] == "obj" else i] = val
                m[i] = pad(B(v[1]), self.item)
            else:
                self.must_raise(k, lambda: a.__setitem__(i, val), "set_invalid")
                self.full_read(k, "after_failed_set")
        elif t == "getslice":
            s = slice(*op[1])
            got = a[s]
            if got != m[s]:
                self.fail(k, "a[%r] = %r, model %r" % (s, got, m[s]), "getslice")
        elif t == "setslice":
            s = slice(*op[1])
            vals = op[2]
            idx = list(range(*s.indices(n)))
            pairs = list(zip(idx, vals))
            bad = next((j for j, (_, v) in enumerate(pairs) if not value_valid(v, self.item)), None)
            pyvals = [decode_value(v) for v in vals]
            if op[3] == "gen":
                pyvals = (x for x in pyvals)
            elif op[3] == "tuple":
                pyvals = tuple(pyvals)
            elif op[3] == "endless" and vals:
                # "assigns element-wise up to the shorter of slice and values": an endless stream of values fills the slice
                pairs = [(ix, vals[j % len(vals)]) for j, ix in enumerate(idx)]
                bad = next((j for j, (_, v) in enumerate(pairs) if not value_valid(v, self.item)), None)
                pyvals = endless([decode_value(v) for v in vals], n + 1000)
            if bad is None:
                a[s] = pyvals
                for i, v in pairs:
                    m[i] = pad(B(v[1]), self.item)
            else:
                self.must_raise(k, lambda: a.__setitem__(s, pyvals), "setslice_invalid")
                self.full_read(k, "after_failed_setslice")
        elif t == "setslice_noniter":
            self.must_raise(k, lambda: a.__setitem__(slice(*op[1]), 7), "setslice_noniterable")
            self.full_read(k, "after_failed_setslice")
        elif t == "del":
            i = op[1]
            if -n <= i < n:
                del a[i]
                m[i] = b"\x00" * self.item
            else:
                self.must_raise(k, lambda: a.__delitem__(i), "del_out_of_range")
                self.full_read(k, "after_failed_del")
        elif t == "delslice":
            s = slice(*op[1])
            del a[s]
            for i in range(*s.indices(n)):
                m[i] = b"\x00" * self.item
        elif t == "clear":
            a.clear()
            for i in range(n):
                m[i] = b"\x00" * self.item
        elif t == "iter":
            got = list(a)
            if got != m:
                self.fail(k, "iteration differs from the model", "iter")
        elif t in ("o_get", "o_set", "o_slice"):
            # operations on the OTHER array (never written at first): reads of it return zeros, writes stay in it, and nothing of it
            # shows in this array (the full comparison of this array follows every step anyway)
            from data_persistence.persistent_array import SPFLBArray
            if self.arr2 is None:
                self.arr2 = SPFLBArray.create(os.path.join(self.dir2, self.name), item_size=self.item, array_len=self.n, item_num_in_one_file=self.chunk)
                self.model2 = [b"\x00" * self.item] * self.n
            i = op[1] % n
            if t == "o_get":
                if self.arr2[i] != self.model2[i]:
                    self.fail(k, "the neighbouring array returns %r at %d, its model %r" % (self.arr2[i], i, self.model2[i]), "neighbour:get")
            elif t == "o_set":
                v = bytes([1 + op[2] % 255]) * self.item
                self.arr2[i] = v
                self.model2[i] = v
            else:
                if self.arr2[:] != self.model2:
                    self.fail(k, "the neighbouring array's full read differs from its model", "neighbour:slice")
            self.full_read(k, "after_neighbour_op")
        elif t in ("it_new", "it_next"):
            # an iterator kept alive across other operations: a list iterator is live (it sees writes to items it has not
            # reached yet); the model is Python's own list iterator over the model list
            if t == "it_new" or getattr(self, "it", None) is None:
                self.it, self.mit, self.it_pos = iter(a), iter(m), 0
            if t == "it_next":
                end = object()
                for _ in range(op[1]):
                    got, want = next(self.it, end), next(self.mit, end)
                    if (got is end) != (want is end) or (got is not end and got != want):
                        self.fail(k, "a live iterator yields %r as item %d, a list iterator over the model yields %r" % (
                            None if got is end else got, self.it_pos, None if want is end else want), "iter:live")
                    self.it_pos += 1
                    if got is end:
                        self.it = None
                        break
        elif t == "contains":
            v = B(op[1])
            got = v in a
            if got != (v in m):
                self.fail(k, "%r in a = %r, model %r" % (v, got, v in m), "contains")
        elif t == "contains_straddle":
            # a value made of the tail of item i and the head of item i+1: a member only if some whole item equals it
            i = op[1] % n
            k = 1 + op[2] % max(1, self.item - 1) if self.item > 1 else 0
            j = (i + 1) % n
            v = (m[i][k:] + m[j][:k]) if self.item > 1 else m[i]
            got = v in a
            if got != (v in m):
                self.fail(k, "%r in a = %r, model %r (value straddles items %d and %d)" % (v, got, v in m, i, j), "contains:straddle")
        elif t == "len":
            if len(a) != n or a.item_size != self.item:
                self.fail(k, "len %d / item_size %d, expected %d / %d" % (len(a), a.item_size, n, self.item), "len")
        elif t == "reopen":
            self.it = None   # an iterator does not outlive the object it was taken from
            self.reopen()
            self.full_read(k, "after_reopen")
        elif t == "closed":
            self.it = None
            self.closed_ops(k)
            self.full_read(k, "after_closed_ops")
        elif t == "ctx":
            self.it = None
            from data_persistence.persistent_array import SPFLBArray
            with a as aa:
                if aa[0] != m[0]:
                    self.fail(k, "read inside with-block differs", "ctx:read")
            self.must_raise(k, lambda: a[0], "closed:after_with")
            self.arr = SPFLBArray.open(self.path)
            self.full_read(k, "after_ctx")
        elif t == "sync":
            a.sync()
        else:
            raise ValueError(t)

    def close(self):
        try:
            if self.arr is not None:
                self.arr.close()
        except Exception:
            pass
        try:
            if self.arr2 is not None:
                self.arr2.close()
        except Exception:
            pass
        shutil.rmtree(self.dir, ignore_errors=True)
        shutil.rmtree(self.dir2, ignore_errors=True)


def run_case(case):
    r = Run(case)
    k = -1
    try:
        r.create()
        r.check_dir(-1)
        r.full_read(-1, "after_create")
        for k, op in enumerate(case["ops"]):
            r.step(k, op)
            r.check_dir(k)
        r.full_read(len(case["ops"]) - 1, "final")
        # durability: what the model holds is what a fresh open reads
        r.reopen()
        r.full_read(len(case["ops"]) - 1, "final_reopen")
        r.check_dir(len(case["ops"]) - 1)
    except Violation:
        raise
    except Exception as e:
        op = case["ops"][k] if 0 <= k < len(case["ops"]) else "create"
        raise Violation("step %d %r raised %s: %s" % (k, op, type(e).__name__, e), "exc:%s:%s" % (op[0] if isinstance(op, list) else op, type(e).__name__))
    finally:
        r.close()


# ---------------------------------------------------------------------------------------------------------
@st.composite
def st_value(draw, item, valid_only=False):
    # memoryview items are NOT generated: the docstring asks for 'a byte-like object', the integer path refuses a memoryview while
    # the slice path writes its bytes - which of the two is intended is not stated, so neither is asserted
    kinds = ["b"] * 6 + ["ba"] if valid_only else ["b"] * 8 + ["ba", "big", "big", "s", "i", "none", "l", "f"]
    t = draw(st.sampled_from(kinds))
    if t in ("b", "ba"):
        size = draw(st.sampled_from([item, item, item, max(0, item - 1), 0, 1]))
        size = min(size, item)
        return [t, draw(st.binary(min_size=size, max_size=size)).hex()]
    if t == "big":
        size = item + draw(st.integers(1, 3))
        return ["b", draw(st.binary(min_size=size, max_size=size)).hex()]
    if t == "s":
        return ["s", "x" * draw(st.sampled_from([item, 1, 0]))]
    if t == "i":
        return ["i", draw(st.integers(0, 300))]
    if t == "none":
        return ["none"]
    if t in ("mv", "f"):
        return [t]
    return ["l"]


@st.composite
def st_slice(draw, n):
    lim = n + 3
    pos = st.one_of(st.none(), st.integers(-lim, lim))
    return [draw(pos), draw(pos), draw(st.one_of(st.none(), st.sampled_from([1, 1, 2, 3, -1, -2, -3, n, -n])).filter(lambda x: x != 0))]


@st.composite
def st_op(draw, n, item):
    t = draw(st.sampled_from(["get", "get", "get", "set", "set", "set", "getslice", "getslice", "setslice", "setslice", "setslice",
                              "del", "delslice", "clear", "iter", "contains", "contains_straddle", "len", "reopen", "reopen", "closed", "ctx", "sync",
                              "setslice_noniter", "it_new", "it_next", "it_next", "it_next", "o_get", "o_get", "o_set", "o_slice"]))
    idx = st.one_of(st.integers(-n, n - 1), st.integers(-n - 3, n + 2), st.sampled_from([-1, -n, 0, n - 1, n, -n - 1]))
    if t == "get":
        return ["get", draw(idx)] + (["obj"] if draw(st.integers(0, 4)) == 0 else [])
    if t == "set":
        return ["set", draw(idx), draw(st_value(item))] + (["obj"] if draw(st.integers(0, 4)) == 0 else [])
    if t == "getslice":
        return ["getslice", draw(st_slice(n))]
    if t == "setslice":
        vals = draw(st.lists(st_value(item, valid_only=draw(st.booleans())), min_size=0, max_size=n + 2))
        return ["setslice", draw(st_slice(n)), vals, draw(st.sampled_from(["list", "list", "gen", "tuple", "endless"]))]
    if t == "setslice_noniter":
        return ["setslice_noniter", draw(st_slice(n))]
    if t == "del":
        return ["del", draw(idx)]
    if t == "delslice":
        return ["delslice", draw(st_slice(n))]
    if t == "it_next":
        return ["it_next", draw(st.integers(1, 4))]
    if t in ("o_get", "o_set", "o_slice"):
        return [t, draw(st.integers(0, 60)), draw(st.integers(0, 300))]
    if t == "contains_straddle":
        return ["contains_straddle", draw(st.integers(0, 60)), draw(st.integers(0, 8))]
    if t == "contains":
        size = draw(st.sampled_from([item, item, max(1, item - 1)]))
        return ["contains", draw(st.one_of(st.just(b"\x00" * size), st.binary(min_size=size, max_size=size))).hex()]
    return [t]


@st.composite
def st_walk(draw, n, item):
    """a short scan over consecutive indices mixing reads, writes and deletes (access patterns of neighbouring items in one
    chunk file: read i then write i+1, write i then read i-1, ...)"""
    start = draw(st.integers(0, n - 1))
    step = draw(st.sampled_from([1, 1, -1]))
    length = draw(st.integers(2, 6))
    out = []
    i = start
    for _ in range(length):
        if not 0 <= i < n:
            break
        kind = draw(st.sampled_from(["get", "get", "set", "del", "contains_zero"]))
        if kind == "get":
            out.append(["get", i if draw(st.booleans()) else i - n])
        elif kind == "set":
            out.append(["set", i, draw(st_value(item, valid_only=True))])
        elif kind == "del":
            out.append(["del", i])
        else:
            out.append(["contains", (b"\x00" * item).hex()])
        i += step
    return out


@st.composite
def st_case(draw, max_ops=25):
    n = draw(st.one_of(st.integers(1, 12), st.integers(1, 40)))
    item = draw(st.integers(1, 9))
    chunk = draw(st.one_of(st.integers(1, n + 2), st.sampled_from([1, 2, 3, n, n + 1, max(1, n - 1), max(1, n // 2)])))
    c = {"len": n, "item": item, "chunk": chunk, "create": draw(st.sampled_from(["create", "from_list"]))}
    if c["create"] == "from_list":
        k = draw(st.integers(0, n))
        init = []
        for _ in range(k):
            size = draw(st.sampled_from([item, item, max(0, item - 1), 0]))
            init.append(draw(st.binary(min_size=size, max_size=size)).hex())
        c["init"] = init
    chunks_ = draw(st.lists(st.one_of(st_op(n, item).map(lambda o: [o]), st_walk(n, item)), min_size=1, max_size=max_ops))
    ops = [o for ch in chunks_ for o in ch][:max_ops]
    c["ops"] = ops or [["len"]]
    if draw(st.integers(0, 3)) == 0:
        c["name"] = draw(st.sampled_from(["arr{0}", "{a1b2-c3d4}", "set{{1}}", "arr%d", "100%s", "a b", "arr[1]", "arr*", "arr?", "\u00e4rr", "arr.0", "_", "arr_0",
                                          "arr_meta", "-r"]))
    return c


def _flags(c):
    ops = c["ops"]
    reopen = any(o[0] in ("reopen", "closed", "ctx") for o in ops)
    neg = any(o[0] in ("get", "set", "del") and o[1] < 0 for o in ops)
    sl = any(o[0] in ("getslice", "setslice", "delslice") for o in ops)
    ragged = c["len"] % c["chunk"] != 0
    return reopen, neg, sl, ragged


def is_nontrivial(c):
    reopen, neg, sl, ragged = _flags(c)
    return reopen and (neg or sl) and ragged


def classes_of(c):
    reopen, neg, sl, ragged = _flags(c)
    out = ["create:" + c["create"], "ragged_len" if ragged else "len_multiple_of_chunk",
           "single_chunk" if c["chunk"] >= c["len"] else "multi_chunk"]
    if reopen:
        out.append("has_reopen")
    if neg:
        out.append("has_negative_index")
    if sl:
        out.append("has_slice_op")
    kinds = [o[0] for o in c["ops"]]
    first_it = next((i for i, t in enumerate(kinds) if t in ("it_new", "it_next")), None)
    if first_it is not None and any(t in ("set", "setslice", "del", "delslice", "clear") for t in kinds[first_it + 1:]) and "it_next" in kinds[first_it + 1:]:
        out.append("iterator_alive_across_write")
    if any(o[0] == "setslice" and any(not value_valid(v, c["item"]) for v in o[2]) for o in c["ops"]):
        out.append("has_invalid_in_slice_values")
    # negative-index read right after a reopen (the shape that exposed the negative-index defect)
    for a, b in zip(c["ops"], c["ops"][1:]):
        if a[0] in ("reopen", "closed", "ctx") and b[0] == "get" and b[1] < 0:
            out.append("neg_read_right_after_reopen")
            break
    return out


def shards(tier):
    return [{"kind": "hyp", "i": i} for i in range(8 if tier == "quick" else 16)]


def run_shard(spec, seed, tier):
    import sys
    mod = sys.modules[__name__]
    res = ShardResult()
    if tier == "quick":
        hyp.search(res, st_case(25), simple.make_body(mod), seed, 800)
    else:
        hyp.search(res, st_case(40), simple.make_body(mod), seed, 10000)
    return res


def replay(case):
    import sys
    return simple.replay(sys.modules[__name__], case)

"""C17 — byte-level encodings round-trip: id blocks, splits, integers, xor, hex database."""
import json

from hypothesis import strategies as st

from vlib import hyp, simple
from vlib.runner import ShardResult, Violation

ID = "C17"
LEVEL = "exploration"
RULE = ("cases are (function family, arguments) drawn by Hypothesis: id packing with id size 1..40, capacity 1..70, list "
        "length 0..300, block size in {default, cap*size, +1, +7, +cap, and < cap*size (must raise)}; byte strings with length "
        "vectors (matching and mismatching sums); ints up to 2^512 with widths; equal-length xor operands; JSON-like hex "
        "databases (identifiers also beginning with U+FEFF and other characters decoders treat specially); chunks; histories over 2-3 "
        "partitions of the same geometry consumed in an arbitrary interleaving with generators abandoned, closed and restarted (each block "
        "compared with an independent payload+padding computation). Oracles: round-trips and length laws. Non-trivial = (blocks: >= 2 blocks or a partial last block "
        "or block padding) / (split: >= 2 pieces) / (int: >= 2 bytes or padded width) / (db: >= 2 keywords); distinct = "
        "distinct case.")
ASSUMPTIONS = ["identifiers are non-zero byte strings of exactly the stated size (the property's domain)",
               "length vectors contain entries >= 1 (no caller passes zeros)"]

FAMILIES = ["blocks", "blocks_small", "split", "split_bad", "int", "lead", "xor", "hex", "db", "chunks", "counts"]


def H(b):
    return bytes(b).hex()


def B(h):
    return bytes.fromhex(h)


def run_case(case):
    import toolkit.database_utils as du
    import toolkit.bytes_utils as bu
    import toolkit.list_utils as lu
    fam = case["fam"]
    try:
        if fam in ("blocks", "blocks_small"):
            size, cap, bs = case["size"], case["cap"], case["block_size"]
            ids = [B(x) for x in case["ids"]]
            if fam == "blocks_small":
                try:
                    r = list(du.partition_identifiers_to_blocks(ids, cap, size, bs))
                except ValueError:
                    return
                raise Violation("block_size %d < cap*size %d accepted (%d blocks)" % (bs, cap * size, len(r)),
                                "blocks_small:accepted")
            blocks = list(du.partition_identifiers_to_blocks(ids, cap, size, bs))
            eff = bs if bs else cap * size
            want_n = -(-len(ids) // cap)
            if len(blocks) != want_n:
                raise Violation("block count %d, expected ceil(%d/%d)=%d" % (len(blocks), len(ids), cap, want_n), "blocks:count")
            if any(len(b) != eff for b in blocks):
                raise Violation("block lengths %r, expected all %d" % (sorted(set(map(len, blocks))), eff), "blocks:length")
            back = []
            for b in blocks:
                got = du.parse_identifiers_from_block_given_identifier_size(b, size)
                back.extend(got)
                # the parsed list belongs to the caller: sorting / extending / emptying it must not change what parsing an equal
                # block returns afterwards
                snapshot = list(got)
                got.reverse()
                got += [b"\xee" * size]
                if len(got) > 2:
                    del got[:1]
                if du.parse_identifiers_from_block_given_identifier_size(bytes(b), size) != snapshot:
                    raise Violation("parsing the same block again after the caller modified the first result gives another answer",
                                    "blocks:parse_result_shared")
            if back != ids:
                raise Violation("parse-by-size(partition(ids)) != ids (%d vs %d ids)" % (len(back), len(ids)), "blocks:parse_size")
            if eff // cap == size:
                back = []
                for b in blocks:
                    back.extend(du.parse_identifiers_from_block_given_entry_count_in_one_block(b, cap))
                if back != ids:
                    raise Violation("parse-by-count(partition(ids)) != ids (%d vs %d ids)" % (len(back), len(ids)),
                                    "blocks:parse_count")
        elif fam == "blocks_history":
            # several partitions of lists with the same geometry, consumed in an arbitrary interleaving; generators may be
            # abandoned half-way, closed, or restarted; every block handed out must be the block an independent computation
            # gives (payload + zero padding), and the blocks of one list must parse back to that list
            size, cap, bs = case["size"], case["cap"], case["block_size"]
            eff = bs if bs else cap * size
            lists = [[B(x) for x in ids] for ids in case["lists"]]

            def ref_block(g, j):
                part = lists[g][j * cap:(j + 1) * cap]
                return b"".join(part).ljust(eff, b"\x00") if part else None
            gens, pos = {}, {}
            schedule = [list(s) for s in case["schedule"]] + [["restart", g] for g in range(len(lists))]
            for n_op, (op, g) in enumerate(schedule):
                g %= len(lists)
                if op in ("start", "restart") or g not in gens:
                    if op == "restart" and g in gens:
                        del gens[g]   # dropped without close(): the generator is simply forgotten
                    if g not in gens or op == "start":
                        gens[g], pos[g] = du.partition_identifiers_to_blocks(lists[g], cap, size, bs), 0
                if op == "close":
                    gens[g].close()
                    del gens[g]
                    continue
                steps = 1 if op == "next" else (10 ** 6 if op == "restart" else 0)
                got_blocks = []
                for _ in range(steps):
                    b = next(gens[g], None)
                    want = ref_block(g, pos[g])
                    if b != want:
                        raise Violation("schedule step #%d (%s list %d): block %d is %r, expected %r (schedule %r)" % (
                            n_op, op, g, pos[g], None if b is None else b.hex(), None if want is None else want.hex(),
                            schedule[:n_op + 1]), "blocks_history:block")
                    if b is None:
                        del gens[g]
                        break
                    got_blocks.append(b)
                    pos[g] += 1
                if op == "restart":
                    back = []
                    for b in got_blocks:
                        back.extend(du.parse_identifiers_from_block_given_identifier_size(b, size))
                    if back != lists[g]:
                        raise Violation("after the interleaved schedule, parse(partition(list %d)) != list (%d vs %d ids)" % (g, len(back), len(lists[g])),
                                        "blocks_history:parse")
        elif fam == "split":
            x = B(case["x"])
            lens = case["lens"]
            parts = bu.split_bytes_given_slice_len(x, lens)
            if b"".join(parts) != x:
                raise Violation("concat(split(x)) != x", "split:concat")
            if [len(p) for p in parts] != lens:
                raise Violation("piece lengths %r != %r" % ([len(p) for p in parts], lens), "split:lens")
        elif fam == "split_bad":
            x = B(case["x"])
            try:
                r = bu.split_bytes_given_slice_len(x, case["lens"])
            except ValueError:
                return
            raise Violation("length mismatch accepted: len(x)=%d lens=%r -> %d pieces" % (len(x), case["lens"], len(r)),
                            "split_bad:accepted")
        elif fam == "int":
            x, w = case["x"], case["w"]
            minimal = (x.bit_length() + 7) // 8
            if w is None:
                enc = bu.int_to_bytes(x)
                if len(enc) != minimal:
                    raise Violation("default width %d, minimal %d" % (len(enc), minimal), "int:default_width")
            else:
                enc = bu.int_to_bytes(x, w)
                if len(enc) != w:
                    raise Violation("width %d requested, got %d" % (w, len(enc)), "int:width")
            if bu.int_from_bytes(enc) != x:
                raise Violation("int_from_bytes(int_to_bytes(x)) != x", "int:roundtrip")
            if enc != x.to_bytes(len(enc), "big"):
                raise Violation("encoding is not big-endian", "int:endianness")
            if bu.BytesConverter.bytes_to_int(enc) != x:
                raise Violation("BytesConverter.bytes_to_int differs", "int:converter")
        elif fam == "lead":
            x = B(case["x"])
            L = case["L"]
            r = bu.add_leading_zeros(x, L)
            if len(r) != max(L, len(x)) or not r.endswith(x) or any(r[:len(r) - len(x)]):
                raise Violation("add_leading_zeros(%r,%d) = %r" % (x, L, r), "lead")
        elif fam == "xor":
            a, b = B(case["a"]), B(case["b"])
            r = bu.bytes_xor(a, b)
            if r != bytes(p ^ q for p, q in zip(a, b)):
                raise Violation("xor differs from bytewise model", "xor:model")
            if bu.bytes_xor(r, b) != a:
                raise Violation("xor is not an involution", "xor:involution")
            if bu.bytes_xor(b, a) != r:
                raise Violation("xor is not commutative", "xor:commutative")
        elif fam == "hex":
            h = case["h"]
            raw = bytes.fromhex(h)
            C = bu.BytesConverter
            if C.convert_bytes(raw, "hex") != h.lower() or C.bytes_to_hex(raw) != h.lower():
                raise Violation("bytes_to_hex(fromhex(h)) != h.lower()", "hex:hex")
            if C.convert_bytes(raw, "int") != (int(h, 16) if h else 0):
                raise Violation("int view differs", "hex:int")
            if C.convert_bytes(raw, "raw") != raw:
                raise Violation("raw view differs", "hex:raw")
            try:
                want = raw.decode("utf-8")
            except UnicodeDecodeError:
                want = None
            if want is not None and C.convert_bytes(raw, "utf8") != want:
                raise Violation("utf8 view differs", "hex:utf8")
            try:
                C.convert_bytes(raw, case.get("badfmt", "base64"))
            except ValueError:
                pass
            else:
                raise Violation("unsupported format accepted", "hex:badfmt")
        elif fam == "db":
            db = {k: list(v) for k, v in case["db"]}
            conv = du.convert_database_keyword_to_bytes(json.loads(json.dumps(db)))
            if list(conv.keys()) != [k.encode("utf-8") for k in db]:
                raise Violation("keyword order/encoding not preserved", "db:keys")
            for k in db:
                got = conv[k.encode("utf-8")]
                if got != [bytes.fromhex(x) for x in db[k]]:
                    raise Violation("identifiers of %r differ" % k, "db:ids")
                if [bu.BytesConverter.convert_bytes(g, "hex") for g in got] != [x.lower() for x in db[k]]:
                    raise Violation("hex output does not reproduce the identifiers", "db:hexview")
                if [bu.BytesConverter.convert_bytes(g, "int") for g in got] != [int(x, 16) for x in db[k]]:
                    raise Violation("int output does not reproduce the identifiers", "db:intview")
            if du.get_total_size(conv) != sum(len(v) for v in db.values()):
                raise Violation("get_total_size differs", "db:total")
            if du.get_distinct_keyword_count(conv) != len(db):
                raise Violation("get_distinct_keyword_count differs", "db:kwcount")
            if du.get_distinct_file_count(conv) != len({bytes.fromhex(x) for v in db.values() for x in v}):
                raise Violation("get_distinct_file_count differs", "db:filecount")
        elif fam == "chunks":
            lst, n = case["lst"], case["n"]
            cs = list(lu.chunks(lst, n))
            flat = [x for c in cs for x in c]
            if flat != lst:
                raise Violation("chunks do not concatenate back", "chunks:concat")
            if len(cs) != -(-len(lst) // n) or any(len(c) != n for c in cs[:-1]) or (cs and not 1 <= len(cs[-1]) <= n):
                raise Violation("chunk sizes %r for n=%d" % ([len(c) for c in cs], n), "chunks:sizes")
            cs = list(lu.chunks(bytes(lst), n))
            if b"".join(cs) != bytes(lst):
                raise Violation("chunks(bytes) do not concatenate back", "chunks:bytes")
        elif fam == "counts":
            pass
        else:
            raise ValueError(fam)
    except Violation:
        raise
    except Exception as e:
        raise Violation("%s raised %s: %s" % (fam, type(e).__name__, e), "%s:exc:%s" % (fam, type(e).__name__))


# ---------------------------------------------------------------------------------------------------------
@st.composite
def st_ids(draw, size, n):
    """n non-zero identifiers of `size` bytes, including ones with leading / trailing / inner zero bytes."""
    mode = draw(st.sampled_from(["ctr_be", "ctr_le", "rand", "mixed"]))
    out = []
    base = draw(st.integers(1, 255))
    for i in range(n):
        m = mode if mode != "mixed" else ["ctr_be", "ctr_le", "rand"][i % 3]
        if m == "ctr_be":
            v = ((base + i) % (256 ** size - 1)) + 1
            out.append(v.to_bytes(size, "big"))
        elif m == "ctr_le":
            v = ((base + i) % (256 ** size - 1)) + 1
            out.append(v.to_bytes(size, "little"))
        else:
            b = draw(st.binary(min_size=size, max_size=size))
            if not any(b):
                b = b[:-1] + b"\x01"
            out.append(b)
    return out


@st.composite
def st_case(draw):
    fam = draw(st.sampled_from(FAMILIES[:-1] + ["blocks", "blocks", "split", "blocks_history", "blocks_history"]))
    c = {"fam": fam}
    if fam in ("blocks", "blocks_small"):
        size = draw(st.one_of(st.integers(1, 8), st.integers(1, 40)))
        cap = draw(st.one_of(st.integers(1, 8), st.integers(1, 70)))
        n = draw(st.one_of(st.integers(0, 3 * cap + 1), st.integers(0, 300),
                           st.sampled_from([0, 1, cap - 1, cap, cap + 1, 2 * cap, 2 * cap + 1])))
        n = max(0, min(n, 300))
        c.update(size=size, cap=cap, ids=[H(x) for x in draw(st_ids(size, n))])
        if fam == "blocks":
            c["block_size"] = draw(st.sampled_from([0, cap * size, cap * size + 1, cap * size + 7, cap * size + cap,
                                                    cap * size + size, 2 * cap * size, cap * size + 4096, cap * size + 65535,
                                                    cap * size + 65536, cap * size + 65537, 200003]))
            if c["block_size"] > 10000:
                c["ids"] = c["ids"][:3 * cap + 1]   # a handful of blocks is enough when each is that large
        else:
            c["block_size"] = draw(st.integers(1, cap * size - 1)) if cap * size > 1 else -1
            if c["block_size"] == -1:
                c["fam"] = "blocks"
                c["block_size"] = 0
    elif fam == "blocks_history":
        size = draw(st.integers(1, 6))
        cap = draw(st.integers(1, 6))
        nl = draw(st.integers(2, 3))
        lists = [[H(x) for x in draw(st_ids(size, draw(st.integers(0, 3 * cap + 2))))] for _ in range(nl)]
        c.update(size=size, cap=cap, block_size=draw(st.sampled_from([0, 0, cap * size + 3, 2 * cap * size])), lists=lists,
                 schedule=draw(st.lists(st.tuples(st.sampled_from(["next", "next", "next", "start", "close", "restart"]),
                                                  st.integers(0, nl - 1)).map(list), min_size=2, max_size=14)))
    elif fam == "split":
        lens = draw(st.lists(st.one_of(st.integers(1, 8), st.integers(1, 64)), min_size=0, max_size=12))
        x = draw(st.binary(min_size=sum(lens), max_size=sum(lens)))
        c.update(x=H(x), lens=lens)
    elif fam == "split_bad":
        lens = draw(st.lists(st.integers(1, 16), min_size=0, max_size=8))
        how = draw(st.sampled_from(["delta", "delta", "cut_at_field_boundary", "extra_fields", "empty_input"]))
        if how == "cut_at_field_boundary" and len(lens) >= 2:
            # the input ends exactly where a field ends: a proper prefix of the length vector matches it
            n = sum(lens[:draw(st.integers(0, len(lens) - 1))])
        elif how == "extra_fields":
            n = sum(lens)
            lens = lens + draw(st.lists(st.integers(1, 16), min_size=1, max_size=3))
        elif how == "empty_input" and lens:
            n = 0
        else:
            delta = draw(st.sampled_from([-3, -1, 1, 2, 17]))
            n = max(0, sum(lens) + delta)
            if n == sum(lens):
                n += 1
        c.update(x=H(draw(st.binary(min_size=n, max_size=n))), lens=lens)
    elif fam == "int":
        k = draw(st.integers(0, 512))
        x = draw(st.one_of(st.integers(0, (1 << k)), st.sampled_from([0, 1, 255, 256, (1 << k) - 1 if k else 0, 1 << k])))
        minimal = (x.bit_length() + 7) // 8
        c.update(x=x, w=draw(st.one_of(st.none(), st.just(minimal), st.integers(minimal, minimal + 40))))
    elif fam == "lead":
        c.update(x=H(draw(st.binary(max_size=40))), L=draw(st.integers(0, 64)))
    elif fam == "xor":
        n = draw(st.integers(0, 80))
        c.update(a=H(draw(st.binary(min_size=n, max_size=n))), b=H(draw(st.binary(min_size=n, max_size=n))))
    elif fam == "hex":
        raw = draw(st.one_of(st.binary(max_size=24), st.text(max_size=8).map(lambda s: s.encode("utf-8")),
                             # text / bytes that begin with characters decoders like to treat specially
                             st.tuples(st.sampled_from(["\ufeff", "\ufeff\ufeff", "\ufffe", "\u200b", "\x00", "\ufffd", "\u2028", "\r\n"]),
                                       st.text(max_size=6)).map(lambda t: (t[0] + t[1]).encode("utf-8")),
                             st.tuples(st.sampled_from([b"\xef\xbb\xbf", b"\xff\xfe", b"\xfe\xff", b"\xef\xbb", b"\x00\x00\xfe\xff"]),
                                       st.binary(max_size=6)).map(lambda t: t[0] + t[1])))
        h = raw.hex()
        if draw(st.booleans()):
            h = h.upper()
        elif draw(st.booleans()):
            h = "".join(ch.upper() if i % 3 == 0 else ch for i, ch in enumerate(h))
        c.update(h=h, badfmt=draw(st.sampled_from(["base64", "HEX", "", "bytes", "utf-8"])))
    elif fam == "db":
        kws = draw(st.lists(st.text(min_size=1, max_size=8), min_size=1, max_size=6, unique=True))
        db = []
        for k in kws:
            ids = draw(st.lists(st.binary(min_size=1, max_size=9), min_size=0, max_size=6))
            db.append([k, [(x.hex().upper() if i % 2 else x.hex()) for i, x in enumerate(ids)]])
        c["db"] = db
    elif fam == "chunks":
        c.update(lst=draw(st.lists(st.integers(0, 255), max_size=60)), n=draw(st.integers(1, 70)))
    return c


def is_nontrivial(c):
    fam = c["fam"]
    if fam == "blocks":
        n, cap = len(c["ids"]), c["cap"]
        return n > cap or (n % cap != 0) or c["block_size"] > c["cap"] * c["size"]
    if fam == "blocks_small":
        return len(c["ids"]) >= 1
    if fam in ("split", "split_bad"):
        return len(c["lens"]) >= 2
    if fam == "int":
        return c["x"] >= 256 or (c["w"] is not None and c["w"] > (c["x"].bit_length() + 7) // 8)
    if fam == "lead":
        return c["L"] > len(c["x"]) // 2
    if fam == "xor":
        return len(c["a"]) >= 2
    if fam == "hex":
        return len(c["h"]) >= 2
    if fam == "db":
        return len(c["db"]) >= 2
    if fam == "chunks":
        return len(c["lst"]) > c["n"]
    if fam == "blocks_history":
        ops = [s[0] for s in c["schedule"]]
        return "next" in ops and len({s[1] for s in c["schedule"]}) >= 2
    return False


def classes_of(c):
    out = ["fam:" + c["fam"]]
    if c["fam"] == "blocks":
        n, cap, size = len(c["ids"]), c["cap"], c["size"]
        out.append("blocks:" + ("empty" if n == 0 else "one_partial" if n < cap else "exact_multiple" if n % cap == 0 else "multi_partial"))
        out.append("blocks:bs=" + ("default" if c["block_size"] == 0 else "tight" if c["block_size"] == cap * size else "padded"))
        if c["block_size"] and (c["block_size"] // cap == size):
            out.append("blocks:by_count_applicable")
    if c["fam"] == "blocks_history":
        ops = [s[0] for s in c["schedule"]]
        for o in ("close", "restart", "start"):
            if o in ops:
                out.append("blocks_history:has_" + o)
    if c["fam"] == "hex":
        raw = bytes.fromhex(c["h"])
        if raw[:3] == b"\xef\xbb\xbf":
            out.append("hex:starts_with_U+FEFF")
    return out


def OPTIMIZED_SHARDS(tier):
    """the generated cases once more in interpreters started with -O, half of them also under an ASCII locale with UTF-8 mode switched off
    (LC_ALL=C, PYTHONUTF8=0, PYTHONCOERCECLOCALE=0): conversions that are defined in terms of UTF-8 must not follow the locale"""
    ascii_locale = {"LC_ALL": "C", "LANG": "C", "PYTHONUTF8": "0", "PYTHONCOERCECLOCALE": "0"}
    hyps = [s for s in shards(tier) if s.get("kind") == "hyp"]
    return [dict(s, _scale=0.3, **({"_env": ascii_locale} if i % 2 == 0 else {})) for i, s in enumerate(hyps)]


def shards(tier):
    out = [{"kind": "hyp", "i": i} for i in range(8 if tier == "quick" else 15)]
    out.append({"kind": "grid"})
    if tier == "thorough":
        out.append({"kind": "fuzz"})
    return out


def _grid_cases(tier):
    """Explicit sweep: every (size, cap) in a grid x list lengths around multiples of cap x block sizes."""
    sizes = [1, 2, 3, 4, 8, 16, 20, 40] if tier == "quick" else list(range(1, 41))
    caps = [1, 2, 3, 4, 7, 8, 64, 70] if tier == "quick" else list(range(1, 71))
    for size in sizes:
        for cap in caps:
            for n in sorted({0, 1, cap - 1, cap, cap + 1, 2 * cap, 2 * cap + 1, 3 * cap - 1} - {-1}):
                if n > 300:
                    continue
                ids = [(((i * 2654435761) % (256 ** size - 1)) + 1).to_bytes(size, "big" if i % 2 else "little").hex()
                       for i in range(n)]
                for bs in (0, cap * size, cap * size + 1, cap * size + cap):
                    yield {"fam": "blocks", "size": size, "cap": cap, "ids": ids, "block_size": bs}
                if cap * size > 1:
                    yield {"fam": "blocks_small", "size": size, "cap": cap, "ids": ids, "block_size": cap * size - 1}


def run_shard(spec, seed, tier):
    import sys
    res = ShardResult()
    mod = sys.modules[__name__]
    if spec["kind"] == "grid":
        simple.run_enumeration(res, mod, _grid_cases(tier))
        res.extra["grid_bounds"] = "id sizes x capacities grid (%s), list lengths around multiples of cap, 4 block sizes" % (
            "8x8" if tier == "quick" else "40x70 complete")
    elif spec["kind"] == "fuzz":
        simple.fuzz_stage(res, "props.c17", seed, 40000)
    else:
        hyp.search(res, st_case(), simple.make_body(mod), seed, 3000 if tier == "quick" else 50000)
    return res


FUZZ_STRATEGY = st_case
fuzz_body = run_case


def replay(case):
    import sys
    return simple.replay(sys.modules[__name__], case)

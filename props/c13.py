"""C13 — a crash between persistence steps never leaves a service unusable."""
import asyncio
import contextlib
import json
import os
import pickle
import shutil
import signal
import subprocess
import sys
import tempfile
import time

from vlib import schemes as S
from vlib.runner import HarnessError, ShardResult, Violation, REPO_DIR, VERIF_DIR

ID = "C13"
LEVEL = "fault_enumeration"
RULE = ("fault injection by real process kill: the component under test (server, or one client CLI-like session) runs in a child "
        "process in which os.mkdir / open-for-write / write / close / os.unlink / os.replace below the scratch ~/.sse are numbered; a dry "
        "run lists the mutations of every persisting handler (server: config upload, index upload, close_service after each; "
        "client: create-service, generate-key, encrypt-database, upload acknowledgements, close_service), then for every mutation k "
        "the child is ended with os._exit(137) immediately before k (which is also 'immediately after k-1'; unflushed buffers are "
        "lost as with kill -9), for the first and last write of every file with the first half of the data flushed ('torn'), and right after "
        "every open-for-write (file created or truncated, nothing in it yet - data may reach a file without write(): sendfile, copy). "
        "Thorough: three schemes (PiBas with two databases). Recovery = what a user would do: restart the component on the same directory, re-run the interrupted command (a step "
        "refused as 'already ...' counts as done; an interrupted create-service, which never returned a sid, is run again), finish "
        "the workflow. Oracle: after a server crash a new connection gets an ok init echo whose state matches the files on disk; "
        "the workflow reaches the search stage; every search equals DB[w]. Raw-protocol variant: the server dies at every point of a raw "
        "client's configuration upload; afterwards the service must behave as in the state BEFORE the step (any configuration - the "
        "other one is offered - is accepted and is the one in force for all later searches) or AFTER it (the first one is in force, "
        "the other is refused). Non-trivial = the child really died at the requested "
        "mutation (confirmed from its event log and exit status 137); distinct = distinct (component, operation, mutation, mode).")
ASSUMPTIONS = ["power-loss reordering below the file system (no fsync modelling) and disk-full are out of reach",
               "client and server use separate scratch HOME directories; each CLI command is a fresh Service loaded from disk",
               "the server's 1 s cleanup pause is a zero-delay shim in the child processes",
               "the children's TMPDIR is on another file system than their HOME when the machine has one (here /dev/shm), every child has its own hash seed, a sample of the scenarios also runs with -O, children started by root give up CAP_DAC_OVERRIDE so that file permission bits are enforced for them as for ordinary users"]

PY = sys.executable
CHILD = os.path.join(VERIF_DIR, "vlib", "c13_child.py")
WORKFLOW = ["create", "genkey", "encrypt", "upload_config", "upload_edb"]
SERVER_HANDLERS = [("handle_upload_config", 1, "upload_config"), ("handle_upload_encrypted_database", 1, "upload_edb"),
                   ("close_service", 1, "upload_config"), ("close_service", 2, "upload_edb")]


def scenario_base(scheme, dbi=0):
    desc = S.DESCS[scheme]
    cfg = S.default_config(scheme)
    if scheme == "CGKO06.SSE1":
        cfg["param_s"] = 64
        cfg["param_dictionary_size"] = 16
    idsz = desc.id_size(cfg)
    lens = [[3, 1, 2], [1], [5, 4]][dbi % 3]
    spec = {"id_size": idsz, "kws": [(b"kw%d" % i).hex() for i in range(len(lens))], "lens": lens, "id_mode": "be", "id_seed": 3 + dbi}
    db = S.build_db(spec)
    if scheme == "CGKO06.SSE2":
        cfg["param_n"] = S.distinct_ids(db)
    return {"scheme": scheme, "cfg": cfg, "db": [[k.hex(), [x.hex() for x in v]] for k, v in db.items()],
            "queries": [k.hex() for k in db] + [b"absent".hex()]}


def other_device_tmp(workdir, create=True):
    """a scratch directory for the children's TMPDIR on ANOTHER file system than the scratch HOME (real deployments often have /tmp
    on tmpfs and the data directory on a disk): code that prepares a file under the system temp directory and moves it into place
    then copies instead of renaming.  Returns None where no second writable file system exists."""
    try:
        dev = os.stat(workdir).st_dev
    except OSError:
        return None
    for cand in ("/dev/shm", "/run/shm", "/var/tmp", "/tmp"):
        try:
            if os.path.isdir(cand) and os.access(cand, os.W_OK) and os.stat(cand).st_dev != dev:
                d = os.path.join(cand, os.path.basename(workdir.rstrip("/")) + "-tmp")
                if create:
                    os.makedirs(d, exist_ok=True)
                return d
        except OSError:
            continue
    return None


class Proc:
    def __init__(self, kind, spec, workdir, tag):
        self.spec = dict(spec)
        self.spec.setdefault("repo", os.environ.get("VERIF_REPO", "/repo"))
        self.spec["out"] = os.path.join(workdir, tag + ".out")
        self.spec.setdefault("log", os.path.join(workdir, tag + ".log"))
        self.spec_path = os.path.join(workdir, tag + ".json")
        with open(self.spec_path, "w") as f:
            json.dump(self.spec, f)
        # every child has its own hash seed (as separate real processes do); derived from the tag, so a run is reproducible
        import zlib
        env = dict(os.environ, PYTHONDONTWRITEBYTECODE="1", PYTHONHASHSEED=str(1 + zlib.crc32(("%s/%s" % (kind, tag)).encode()) % 4000))
        tmpd = other_device_tmp(workdir)
        if tmpd:
            env["TMPDIR"] = tmpd
        # the working directory of a client or server process is not its HOME either: where there is a second file system it is there
        self.p = subprocess.Popen([PY, CHILD, kind, self.spec_path], env=env, stdout=subprocess.DEVNULL, stderr=subprocess.PIPE, cwd=tmpd or workdir)

    def wait(self, timeout=120):
        try:
            self.p.wait(timeout)
        except subprocess.TimeoutExpired:
            self.p.kill()
            self.p.wait()
            raise HarnessError("child process did not finish within %d s (inconclusive)" % timeout)
        return self.p.returncode

    def out(self):
        res = []
        with contextlib.suppress(FileNotFoundError):
            for line in open(self.spec["out"]):
                with contextlib.suppress(Exception):
                    res.append(json.loads(line))
        return res

    def stderr(self):
        with contextlib.suppress(Exception):
            return self.p.stderr.read().decode(errors="replace")[-600:]
        return ""

    def kill(self):
        if self.p.poll() is None:
            self.p.kill()
            self.p.wait()


def start_server(home, workdir, tag, arm=None, arm_call=1, crash=None):
    port_file = os.path.join(workdir, tag + ".port")
    with contextlib.suppress(FileNotFoundError):
        os.unlink(port_file)
    sp = {"home": home, "port_file": port_file, "arm": arm, "arm_call": arm_call, "crash": crash}
    proc = Proc("server", sp, workdir, tag)
    t0 = time.time()
    while not os.path.exists(port_file):
        if proc.p.poll() is not None:
            raise HarnessError("server child exited at start-up: %s" % proc.stderr())
        if time.time() - t0 > 60:
            proc.kill()
            raise HarnessError("server child did not start within 60 s")
        time.sleep(0.02)
    proc.port = int(open(port_file).read())
    proc.uri = "ws://127.0.0.1:%d" % proc.port
    return proc


def client(base, home, uri, workdir, tag, cmds, sid=None, crash=None, log_all=False):
    sp = {"home": home, "uri": uri, "cfg": base["cfg"], "db": base["db"], "queries": base["queries"], "cmds": cmds, "sid": sid,
          "crash": crash, "log_all": log_all, "seed": "%s/%s" % (base.get("_seed", ""), tag)}
    return Proc("client", sp, workdir, tag)


async def _probe(uri, sid):
    import websockets
    try:
        ws = await websockets.connect(uri, max_size=None)
    except Exception as e:
        return {"error": "connect failed: %s" % e}
    try:
        await ws.send(pickle.dumps({"type": "init", "sid": sid}))
        raw = await asyncio.wait_for(ws.recv(), 15)
        d = pickle.loads(raw)
        return {"type": d.get("type"), "echo": pickle.loads(d["content"]) if d.get("type") == "init" else None}
    except websockets.ConnectionClosed as e:
        return {"closed": getattr(e, "code", None) or getattr(getattr(e, "rcvd", None), "code", None)}
    except asyncio.TimeoutError:
        return {"error": "no init echo within 15 s"}
    finally:
        with contextlib.suppress(Exception):
            await ws.close()


def check_completion(base, out, what):
    scheme = base["scheme"]
    desc = S.DESCS[scheme]
    comp = [o for o in out if o.get("name") == "complete"]
    if not comp:
        raise Violation("%s: %s: the recovery session did not finish (%r)" % (scheme, what, out[-2:]), "recovery_session_died")
    if comp[0]["status"] != "ok":
        raise Violation("%s: %s: the workflow cannot be completed after restart: %s" % (scheme, what, comp[0].get("why")),
                        "workflow_stuck:" + (comp[0].get("why") or "?").split(":")[0])
    db = {k: v for k, v in base["db"]}
    searches = [o for o in out if o.get("name") == "search" and o.get("status") == "ok"]
    if len(searches) != len(base["queries"]):
        raise Violation("%s: %s: %d of %d searches completed" % (scheme, what, len(searches), len(base["queries"])), "searches_missing")
    for q, o in zip(base["queries"], searches):
        want = db.get(q, [])
        got = o["result"]
        if (sorted(got) != sorted(want)) if desc.result_is_set else (got != want):
            raise Violation("%s: %s: after recovery Search(%s) returned %d ids, expected %d" % (scheme, what, bytes.fromhex(q), len(got), len(want)),
                            "wrong_result_after_recovery")


async def _raw_recovery(uri, sid, fx, first, probe_first, what, scheme):
    """after a server crash during the upload of configuration c<first> by a raw-protocol client: the service is in the state BEFORE
    the step (then it must behave like a service nobody configured: any configuration - here the OTHER one - is accepted and is the
    one in force from then on) or AFTER it (then c<first> is in force and the other one is refused)"""
    import hashlib
    import pickle as _p
    from props import c10
    from vlib import rig

    async def connect():
        rc = await rig.RawClient(uri, sid).connect()
        m = await rc.recv(timeout=15)
        dec = m.get("decoded") if isinstance(m, dict) else None
        if m.get("type") != "init" or not isinstance(dec, dict) or dec.get("ok") is not True:
            raise Violation("%s: %s: after the restart a new connection gets no ok init echo (%r)" % (scheme, what, {k: m.get(k) for k in ("type", "decoded", "code")}),
                            "handshake_fails_after_server_crash")
        return rc, dec.get("state")

    async def request(rc, mtype, content, **extra):
        await rc.send(mtype, content, **extra)
        while True:
            m = await rc.recv(timeout=15)
            if m["type"] != "control":
                return m

    def accepted(m, mtype):
        return m.get("type") == mtype and isinstance(m.get("decoded"), dict) and m["decoded"].get("ok") is True

    if probe_first:
        rc, _ = await connect()     # a look at the state, nothing else
        await rc.close()
        await asyncio.sleep(0.3)
    rc, st = await connect()
    other = 2 if first == 1 else 1
    if st not in (0, 1):
        raise Violation("%s: %s: init echo reports state %r after a crash during the configuration upload" % (scheme, what, st), "raw:impossible_state")
    in_force = first
    if st == 0:
        m = await request(rc, "config", _p.dumps(fx["c"][other]))
        if not accepted(m, "config"):
            raise Violation("%s: %s: the service reports state 0 (not configured) but refuses a configuration (%r)" % (
                scheme, what, (m.get("type"), m.get("decoded"), m.get("code"))), "raw:state_before_but_config_refused")
        in_force = other
    else:
        m = await request(rc, "config", _p.dumps(fx["c"][other]))
        if accepted(m, "config"):
            raise Violation("%s: %s: the service reports state 1 (configured) but accepts another configuration" % (scheme, what), "raw:state_after_but_config_replaced")
        await rc.close()
        await asyncio.sleep(0.3)
        rc, st2 = await connect()
        if st2 != 1:
            raise Violation("%s: %s: state %r after a refused configuration, expected 1" % (scheme, what, st2), "raw:state_moved")
    m = await request(rc, "upload_edb", fx["e"][1])
    if not accepted(m, "upload_edb"):
        raise Violation("%s: %s: index upload refused in state 1 (%r)" % (scheme, what, (m.get("type"), m.get("decoded"), m.get("code"))), "raw:upload_refused")
    for round_ in (0, 1):
        for w in (b"alpha", b"beta"):
            tok = fx["tok"][w]
            want = c10.local_answer(fx, fx["c"][in_force], fx["e"][1], tok)
            m = await request(rc, "token", tok, token_digest=hashlib.sha256(tok).digest())
            if want is None:
                if m.get("type") == "result":
                    with contextlib.suppress(Exception):
                        if isinstance(_p.loads(m["content"]), dict):
                            continue
                    raise Violation("%s: %s: a search that cannot be computed under the configuration in force was answered" % (scheme, what), "raw:impossible_answer")
                if m.get("type") == "__closed__":
                    rc, _ = await connect()
                continue
            got = None
            if m.get("type") == "result":
                with contextlib.suppress(Exception):
                    got = _p.loads(m["content"])
            if got != want:
                raise Violation("%s: %s: search for %r on %s answers %r, but under the configuration in force (c%d, accepted %s the crash) the answer is %r" % (
                    scheme, what, w, "the same connection" if round_ == 0 else "a new connection", got, in_force,
                    "after" if in_force != first else "before/at", want), "raw:answer_not_from_configuration_in_force")
        await rc.close()
        await asyncio.sleep(0.3)
        if round_ == 0:
            rc, st3 = await connect()
            if st3 != 2:
                raise Violation("%s: %s: state %r on a new connection after config and index were accepted" % (scheme, what, st3), "raw:state_not_ready")


def run_raw_scenario(sc, info):
    """server killed at a point of handle_upload_config while a RAW client uploads one configuration; afterwards a raw client goes on
    with the other configuration (see _raw_recovery)"""
    import hashlib
    import pickle as _p
    from props import c10
    from vlib import rig
    scheme = sc["scheme"]
    fx = c10.fixtures(scheme, 1)
    work = tempfile.mkdtemp(prefix="ssepy-c13-")
    home_s = os.path.join(work, "srv")
    os.makedirs(home_s)
    procs = []
    sid = hashlib.sha256(("c13raw/%s/%s/%s" % (scheme, sc["at"], sc["mode"])).encode()).hexdigest()
    what = "server crash handle_upload_config#1 event %s (%s), raw client uploading c%d%s" % (sc["at"], sc["mode"], sc["first"], ", probe first" if sc["probe"] else "")
    try:
        srvA = start_server(home_s, work, "srvA", arm="handle_upload_config", arm_call=1, crash={"at": sc["at"], "mode": sc["mode"]})
        procs.append(srvA)

        async def first_upload():
            rc = await rig.RawClient(srvA.uri, sid).connect()
            await rc.recv(timeout=15)
            await rc.send("config", _p.dumps(fx["c"][sc["first"]]))
            await rc.recv(timeout=5)
            await rc.close()
        with contextlib.suppress(Exception):
            asyncio.run(first_upload())
        t0 = time.time()
        while srvA.p.poll() is None and time.time() - t0 < 3.0:
            time.sleep(0.02)
        info["crashed"] = srvA.p.poll() == 137
        events, _ = _read_log(srvA)
        info["event"] = _event_of(events, sc["at"])
        srvA.kill()
        srvB = start_server(home_s, work, "srvB")
        procs.append(srvB)
        asyncio.run(_raw_recovery(srvB.uri, sid, fx, sc["first"], sc["probe"], what + " [%s]" % info["event"], scheme))
        return info
    finally:
        for p in procs:
            p.kill()
        _t = other_device_tmp(work, create=False)
        shutil.rmtree(work, ignore_errors=True)
        if _t:
            shutil.rmtree(_t, ignore_errors=True)


def run_scenario(sc, info=None):
    """one crash scenario; fills and returns the info dict; raises Violation"""
    if sc.get("component") == "server_raw":
        return run_raw_scenario(sc, info if info is not None else {})
    base = dict(sc["base"])
    base["_seed"] = "%s/%s/%s/%s/%s" % (sc["component"], sc.get("op") or sc.get("handler"), sc.get("arm_call"), sc["at"], sc["mode"])
    scheme = base["scheme"]
    work = tempfile.mkdtemp(prefix="ssepy-c13-")
    home_s, home_c = os.path.join(work, "srv"), os.path.join(work, "cli")
    os.makedirs(home_s)
    os.makedirs(home_c)
    procs = []
    if info is None:
        info = {}
    info["crashed"] = False
    try:
        what = "%s crash %s event %s (%s)" % (sc["component"], sc.get("op") or "%s#%d" % (sc["handler"], sc["arm_call"]), sc["at"], sc["mode"])
        crash = {"at": sc["at"], "mode": sc["mode"]}
        if sc["component"] == "client":
            srv = start_server(home_s, work, "srv0")
            procs.append(srv)
            ci = sc["cmd"]
            cmds = [[w] for w in WORKFLOW[:ci + 1]] if ci < len(WORKFLOW) else [[w] for w in WORKFLOW] + [["search", base["queries"][0]]]
            c1 = client(base, home_c, srv.uri, work, "cli1", cmds, crash=dict(crash, cmd=ci))
            procs.append(c1)
            rc = c1.wait()
            out1 = c1.out()
            info["crashed"] = rc == 137
            if rc != 137 and not any(o.get("name") == "session_end" for o in out1):
                raise HarnessError("client child ended with rc=%s without crashing: %s" % (rc, c1.stderr()))
            sid = next((o["sid"] for o in out1 if o.get("name") == "create" and o.get("status") == "ok"), None)
            events, crashed_line = _read_log(c1)
            info["event"] = _event_of(events, sc["at"])
            c2 = client(base, home_c, srv.uri, work, "cli2", [["complete"]], sid=sid)
            procs.append(c2)
            c2.wait()
            check_completion(base, c2.out(), what + " [%s]" % (info["event"],))
        else:
            srvA = start_server(home_s, work, "srvA", arm=sc["handler"], arm_call=sc["arm_call"], crash=crash)
            procs.append(srvA)
            upto = WORKFLOW.index(sc["trigger"]) + 1
            c1 = client(base, home_c, srvA.uri, work, "cli1", [[w] for w in WORKFLOW[:upto]])
            procs.append(c1)
            c1.wait()
            out1 = c1.out()
            sid = next((o["sid"] for o in out1 if o.get("name") == "create" and o.get("status") == "ok"), None)
            if sid is None:
                raise HarnessError("client could not even create the service: %s" % c1.stderr())
            # close_service runs after the connection is closed: give the server a moment to reach the crash point
            t0 = time.time()
            while srvA.p.poll() is None and time.time() - t0 < 3.0:
                time.sleep(0.02)
            info["crashed"] = srvA.p.poll() == 137
            events, _ = _read_log(srvA)
            info["event"] = _event_of(events, sc["at"])
            srvA.kill()
            if sc.get("second"):
                # crash again while the interrupted step is being repeated (same handler, another mutation), then recover for good
                sec = sc["second"]
                srvA2 = start_server(home_s, work, "srvA2", arm=sc["handler"], arm_call=1, crash={"at": sec["at"], "mode": sec["mode"]})
                procs.append(srvA2)
                cr = client(base, home_c, srvA2.uri, work, "cli1b", [["complete"]], sid=sid)
                procs.append(cr)
                cr.wait()
                t0 = time.time()
                while srvA2.p.poll() is None and time.time() - t0 < 2.0:
                    time.sleep(0.02)
                info["second_crashed"] = srvA2.p.poll() == 137
                srvA2.kill()
            srvB = start_server(home_s, work, "srvB")
            procs.append(srvB)
            pr = asyncio.run(_probe(srvB.uri, sid))
            echo = pr.get("echo")
            if not (isinstance(echo, dict) and echo.get("ok") is True):
                raise Violation("%s: %s [%s]: after the server restart a new connection for the service gets no ok init echo (%r); files: %r" % (
                    scheme, what, info["event"], pr, _ls(os.path.join(home_s, ".sse", sid))), "handshake_fails_after_server_crash")
            files = _ls(os.path.join(home_s, ".sse", sid))
            st = echo.get("state")
            consistent = (st == 0) or (st == 1 and "config.json" in files) or (st == 2 and "config.json" in files and "edb" in files)
            if not consistent:
                raise Violation("%s: %s [%s]: init echo state %r does not match the files on disk %r" % (scheme, what, info["event"], st, files),
                                "state_inconsistent_with_disk")
            c2 = client(base, home_c, srvB.uri, work, "cli2", [["complete"]], sid=sid)
            procs.append(c2)
            c2.wait()
            check_completion(base, c2.out(), what + " [%s]" % (info["event"],))
        return info
    finally:
        for p in procs:
            p.kill()
        _t = other_device_tmp(work, create=False)
        shutil.rmtree(work, ignore_errors=True)
        if _t:
            shutil.rmtree(_t, ignore_errors=True)


def _ls(d):
    try:
        return sorted(os.listdir(d))
    except FileNotFoundError:
        return None


def _read_log(proc):
    from vlib import faultfs
    return faultfs.read_log(proc.spec["log"])


def _event_of(events, at):
    for e in events:
        if e["idx"] == at:
            return "%s %s" % (e["kind"], os.path.basename(e["path"]))
    return "?"


# ---------------------------------------------------------------------------------------------------------
# enumeration
# ---------------------------------------------------------------------------------------------------------
def select_points(events):
    """crash points for one operation's mutation list: before every mutation (writes to one file collapsed to first/last),
    torn at the first and last write of each file"""
    pts = []
    by_file = {}
    for e in events:
        if e["kind"] == "write":
            by_file.setdefault(e["path"], []).append(e["idx"])
    keep_writes = set()
    for path, idxs in by_file.items():
        keep_writes.update([idxs[0], idxs[-1]])
    for e in events:
        if e["kind"] == "write" and e["idx"] not in keep_writes:
            continue
        pts.append((e["idx"], "before", e))
        if e["kind"] == "write" and e["size"] >= 2:
            pts.append((e["idx"], "torn", e))
        if e["kind"] == "open_w":
            pts.append((e["idx"], "after", e))   # right after the open (file created / truncated), before anything reaches it
    return pts


def dry_run(base):
    """lists the mutations of every client command and every server handler for this scheme"""
    work = tempfile.mkdtemp(prefix="ssepy-c13dry-")
    out = {"client": {}, "server": {}}
    procs = []
    try:
        home_s, home_c = os.path.join(work, "srv"), os.path.join(work, "cli")
        os.makedirs(home_s)
        os.makedirs(home_c)
        srv = start_server(home_s, work, "srv0")
        procs.append(srv)
        cmds = [[w] for w in WORKFLOW] + [["search", base["queries"][0]]]
        c = client(base, home_c, srv.uri, work, "cli", cmds, log_all=True)
        procs.append(c)
        c.wait()
        o = c.out()
        if not any(x.get("name") == "search" and x.get("status") == "ok" for x in o):
            raise HarnessError("dry run of the client workflow failed: %r %s" % (o[-3:], c.stderr()))
        events, _ = _read_log(c)
        for e in events:
            ci = int(e["scope"].split(":")[0])
            out["client"].setdefault(ci, []).append(e)
        srv.kill()
        for (handler, call, trigger) in SERVER_HANDLERS:
            hs, hc = os.path.join(work, "srv_" + handler + str(call)), os.path.join(work, "cli_" + handler + str(call))
            os.makedirs(hs)
            os.makedirs(hc)
            s2 = start_server(hs, work, "srv_%s%d" % (handler, call), arm=handler, arm_call=call)
            procs.append(s2)
            c2 = client(base, hc, s2.uri, work, "cli_%s%d" % (handler, call), [[w] for w in WORKFLOW])
            procs.append(c2)
            c2.wait()
            time.sleep(0.3)
            ev, _ = _read_log(s2)
            out["server"]["%s#%d" % (handler, call)] = ev
            s2.kill()
        return out
    finally:
        for p in procs:
            p.kill()
        _t = other_device_tmp(work, create=False)
        shutil.rmtree(work, ignore_errors=True)
        if _t:
            shutil.rmtree(_t, ignore_errors=True)


def scenarios_for(base, dry):
    scs = []
    for ci, events in sorted(dry["client"].items()):
        name = (WORKFLOW + ["search"])[ci]
        for (idx, mode, e) in select_points(events):
            scs.append({"component": "client", "base": base, "cmd": ci, "op": name, "at": idx, "mode": mode,
                        "what": "%s %s" % (e["kind"], os.path.basename(e["path"]))})
    for (handler, call, trigger) in SERVER_HANDLERS:
        events = dry["server"].get("%s#%d" % (handler, call), [])
        for (idx, mode, e) in select_points(events):
            scs.append({"component": "server", "base": base, "handler": handler, "arm_call": call, "trigger": trigger, "at": idx, "mode": mode,
                        "what": "%s %s" % (e["kind"], os.path.basename(e["path"]))})
    return scs


_DRY_CACHE = {}


def shards(tier):
    schemes = ["CJJ14.PiBas"] if tier == "quick" else ["CJJ14.PiBas", "CJJ14.Pi2Lev", "DP17.Pi"]
    out = []
    for s in schemes:
        for dbi in ([0] if (tier == "quick" or s != "CJJ14.PiBas") else [0, 1]):
            base = scenario_base(s, dbi)
            dry = dry_run(base)
            if dbi == 0:
                _DRY_CACHE[s] = dry
            scs = scenarios_for(base, dry)
            out.extend(scs)
            # double crashes: the server dies again while the interrupted upload is being repeated
            servers = [sc for sc in scs if sc["component"] == "server" and sc["handler"] != "close_service"]
            firsts = servers if (tier != "quick" and dbi == 0) else servers[1:4]
            for sc in firsts:
                same = [x for x in servers if x["handler"] == sc["handler"]]
                picks = same if (tier != "quick" and s == "CJJ14.PiBas") else [same[1], same[len(same) // 2], same[-1]]
                for x in picks:
                    d = dict(sc)
                    d["second"] = {"at": x["at"], "mode": x["mode"], "what": x["what"]}
                    d["what"] = sc["what"] + " then " + x["what"] + "(" + x["mode"] + ")"
                    out.append(d)
    # raw-protocol recoveries: the server dies at every point of the configuration upload of a RAW client; afterwards the other
    # configuration is offered (state before = a service nobody configured; state after = the first configuration is in force)
    raw_schemes = ["CJJ14.PiPack"] if tier == "quick" else ["CJJ14.PiPack", "DP17.Pi", "CJJ14.PiPtr"]
    for s in raw_schemes:
        if s not in _DRY_CACHE:
            _DRY_CACHE[s] = dry_run(scenario_base(s, 0))
        events = _DRY_CACHE[s]["server"].get("handle_upload_config#1", [])
        for j, (idx, mode, e) in enumerate(select_points(events)):
            out.append({"component": "server_raw", "scheme": s, "base": {"scheme": s, "db": []}, "handler": "handle_upload_config", "arm_call": 1,
                        "at": idx, "mode": mode, "first": 2 if j % 2 == 0 else 1, "probe": j % 3 != 0,
                        "what": "raw %s %s" % (e["kind"], os.path.basename(e["path"]))})
    # group into at most 16 shards, round robin
    n = 16
    groups = [[] for _ in range(n)]
    for i, sc in enumerate(out):
        groups[i % n].append(sc)
    return [{"kind": "crash", "scenarios": g, "_label": {"kind": "crash", "group": i, "scenarios": len(g)}} for i, g in enumerate(groups) if g]


def OPTIMIZED_SHARDS(tier):
    """a sample of the crash scenarios (every 9th in quick, every 5th in thorough) is repeated with all processes started with -O"""
    flat = [sc for sh in shards(tier) for sc in sh["scenarios"]]
    flat.sort(key=lambda sc: json.dumps(sc, sort_keys=True, default=repr))
    pick = flat[::9 if tier == "quick" else 5]
    n = 8
    groups = [pick[i::n] for i in range(n)]
    return [{"kind": "crash", "scenarios": g, "_label": {"kind": "crash", "group": "O%d" % i, "scenarios": len(g)}} for i, g in enumerate(groups) if g]


def run_shard(spec, seed, tier):
    res = ShardResult()
    first = {}
    nvio = 0
    for sc in spec["scenarios"]:
        if nvio >= 3:
            res.notes.append("enumeration stopped early after 3 violating crash scenarios in this shard")
            break
        case = {k: sc[k] for k in sc}
        info = {"crashed": False}
        try:
            try:
                run_scenario(sc, info)
            finally:
                opname = sc.get("op") or "%s#%d" % (sc["handler"], sc["arm_call"])
                res.count([sc["base"]["scheme"], sc["component"], opname, sc["what"], sc["mode"], len(sc["base"]["db"])], info.get("crashed", False),
                          ["component:" + sc["component"], "op:" + opname, "mode:" + sc["mode"],
                           "child_died_at_point" if info.get("crashed") else "point_not_reached"] + (
                              ["double_crash", "second_child_died" if info.get("second_crashed") else "second_point_not_reached"] if sc.get("second") else []),
                          sample={"scheme": sc["base"]["scheme"], "component": sc["component"], "op": opname, "mutation": sc["what"],
                                  "at": sc["at"], "mode": sc["mode"]})
        except Violation as v:
            nvio += 1
            if v.bucket not in first:
                first[v.bucket] = (case, str(v))
    res.exhaustive = nvio < 3
    res.extra["enumeration_bounds"] = ("every selected mutation of every persisting handler (writes to one file collapsed to first/last) "
                                       "x {before, torn}; list obtained by a dry run, complete by construction for the sampled databases")
    for bucket, (case, msg) in first.items():
        res.add_violation(case, msg, bucket)
    return res


def replay(case):
    try:
        run_scenario(case)
    except Violation as v:
        return str(v)
    return None

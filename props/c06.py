"""C06 — index layout does not encode the order in which the database was supplied."""
import math

from hypothesis import strategies as st

from vlib import hyp
from vlib import schemes as S
from vlib.drbg import entropy
from vlib.runner import ShardResult, Violation
from vlib.search_common import stage_violation

ID = "C06"
LEVEL = "exploration"
RULE = ("(i) CJJ14 x4, CT14, ANSS16: a case is (config, key, database, permutation sigma of the keyword order); both setups run "
        "under the same key and an identically re-seeded DRBG. Oracle: the keys of every dict-typed table of the serialized "
        "index are strictly ascending; the full label sequences are equal (CJJ14) / the subsequences of real labels recomputed "
        "from the tokens are equal (CT14, ANSS16). Non-trivial = some table has >= 12 real entries and sigma is not the "
        "identity; one database per scheme with more than 2**16 entries in the label table (CJJ14: 66 000-70 000; thorough also CT14/ANSS16 "
        "with 70 000 postings) is checked the same way. (ii) PiPtr, Pi2Lev, SSE-1, DP17: databases with enough array-resident blocks; the list-typed members of the "
        "index are replaced by recording lists; the per-keyword sequences of slots read by Search (a) differ between two "
        "setups (same key where placement is drawn from `random`, fresh key for SSE-1) and from a third setup made in a fresh interpreter "
        "state (construction module reloaded, new scheme object, other entropy), and (b) are not the sequential "
        "allocation 1,2,3.. / n,..,2,1; for DP17 additionally the real entries inside the buckets read are not all in "
        "'real-first' (un-shuffled) arrangement. Each (ii) assertion is made only when the chance that correct code fails "
        "it, computed for the case, is < 1e-15; such cases are the non-trivial ones. distinct = distinct (scheme, config, "
        "profile, sigma).")
ASSUMPTIONS = ["no statistical test of uniformity is attempted (a weak but non-constant permutation is out of reach)",
               "Hypothesis/entropy() seed the global `random` per case, so two setups inside one case draw different placements"]

SORTED_SCHEMES = ["CJJ14.PiBas", "CJJ14.PiPack", "CJJ14.PiPtr", "CJJ14.Pi2Lev", "CT14.Pi", "ANSS16.Scheme3"]
PLACED_SCHEMES = ["CJJ14.PiPtr", "CJJ14.Pi2Lev", "CGKO06.SSE1", "DP17.Pi"]
EPS = 1e-15


class RecordingList(list):
    """list subclass that records every index read through __getitem__"""

    def __init__(self, items, log, tag=None):
        super().__init__(items)
        self._log = log
        self._tag = tag

    def __getitem__(self, i):
        if not isinstance(i, slice):
            self._log.append(i if self._tag is None else (self._tag, i))
        return list.__getitem__(self, i)


# ---------------------------------------------------------------------------------------------------------
# (i) sortedness / order independence
# ---------------------------------------------------------------------------------------------------------
def dict_tables(payload):
    return [(p, c) for p, c in S.tables(payload) if isinstance(c, dict) and c and all(isinstance(k, bytes) for k in c)]


def real_labels(scheme, sch, key, edb, db):
    """labels of real entries per table path, recomputed from the tokens (CT14 / ANSS16)"""
    from toolkit.bytes_utils import int_to_bytes
    out = {}
    if scheme == "CT14.Pi":
        for w in db:
            tk = sch.TokenGen(key, w)
            for i, ht in enumerate(edb.HT_list):
                l = sch.config.prf_f_prime(tk.K0, int_to_bytes(i))
                if l in ht:
                    out.setdefault("[%d]" % i, set()).add(l)
    else:
        for w in db:
            tk = sch.TokenGen(key, w)
            if tk.li_prime in edb.HT_S:
                out.setdefault("S", set()).add(tk.li_prime)
            for i, ht in enumerate(edb.HT_L_list):
                if tk.li in ht:
                    out.setdefault("L[%d]" % i, set()).add(tk.li)
    return out


def run_sorted(case, res=None):
    scheme = case["scheme"]
    desc, loader, cfg, db = S.prepare(case)
    kws = list(db.keys())
    perm = case["perm"]
    db2 = {kws[i]: list(db[kws[i]]) for i in perm}
    try:
        with entropy(case["seed"]):
            sch = loader.SSEScheme(cfg)
            key = sch.KeyGen()
        with entropy((case["seed"], "setup")):
            edb1 = sch.EDBSetup(key, db)
        with entropy((case["seed"], "setup")):
            edb2 = sch.EDBSetup(key, db2)
        raw1, raw2 = edb1.serialize(), edb2.serialize()
    except Exception as e:
        raise stage_violation(scheme, "setup", e)
    p1, p2 = S.edb_payload(raw1), S.edb_payload(raw2)
    t1, t2 = dict_tables(p1), dict_tables(p2)
    max_real = 0
    for which, tabs in (("DB", t1), ("sigma(DB)", t2)):
        for path, tab in tabs:
            ks = list(tab.keys())
            if any(a >= b for a, b in zip(ks, ks[1:])):
                raise Violation("%s: labels of table %s are not in ascending order in the index of %s (%d entries)" % (
                    scheme, "/".join(path) or "/", which, len(ks)), "%s:unsorted_table" % scheme)
    if [p for p, _ in t1] != [p for p, _ in t2]:
        raise Violation("%s: the two indexes have different tables" % scheme, "%s:tables_differ" % scheme)
    if scheme.startswith("CJJ14"):
        for (path, a), (_, b) in zip(t1, t2):
            max_real = max(max_real, len(a))
            if list(a.keys()) != list(b.keys()):
                raise Violation("%s: label sequence of table %s changes when the keyword order is permuted" % (scheme, "/".join(path) or "/"),
                                "%s:label_sequence_depends_on_order" % scheme)
    else:
        r1 = real_labels(scheme, sch, key, edb1, db)
        r2 = real_labels(scheme, sch, key, edb2, db)
        if {k: sorted(v) for k, v in r1.items()} != {k: sorted(v) for k, v in r2.items()}:
            raise Violation("%s: real labels land in different tables when the keyword order is permuted" % scheme,
                            "%s:real_labels_differ" % scheme)
        tabs1 = {"[%d]" % i: t for i, t in enumerate(edb1.HT_list)} if scheme == "CT14.Pi" else \
            dict([("S", edb1.HT_S)] + [("L[%d]" % i, t) for i, t in enumerate(edb1.HT_L_list)])
        tabs2 = {"[%d]" % i: t for i, t in enumerate(edb2.HT_list)} if scheme == "CT14.Pi" else \
            dict([("S", edb2.HT_S)] + [("L[%d]" % i, t) for i, t in enumerate(edb2.HT_L_list)])
        for name, reals in r1.items():
            max_real = max(max_real, len(reals))
            s1 = [k for k in tabs1[name].keys() if k in reals]
            s2 = [k for k in tabs2[name].keys() if k in reals]
            if s1 != s2:
                raise Violation("%s: the sequence of real labels in table %s changes when the keyword order is permuted" % (scheme, name),
                                "%s:label_sequence_depends_on_order" % scheme)
    return max_real


# ---------------------------------------------------------------------------------------------------------
# (ii) placement
# ---------------------------------------------------------------------------------------------------------
def reads_of(scheme, sch, key, edb, db):
    """per-keyword sequences of slots read from the list-typed members of the index during Search"""
    log = []
    if scheme == "DP17.Pi":
        edb.A_dict = {lvl: RecordingList(lst, log, lvl) for lvl, lst in edb.A_dict.items()}
    else:
        edb.A = RecordingList(edb.A, log)
    out = []
    for w in db:
        del log[:]
        tk = sch.TokenGen(key, w)
        got = sch.Search(edb, tk).get_result_list()
        if not S.result_matches(S.DESCS[scheme], got, db, w):
            raise Violation("%s: wrong search result while recording slot reads" % scheme, "%s:wrong_result" % scheme)
        out.append(list(log))
    return out


def dp17_bounds(sch, key, edb, db, reads):
    """upper bounds on the probability that correct code (a) repeats the placement, (b) leaves every read bucket real-first"""
    ecl = sch.config.param_identifier_cipher_len
    full = {}
    for lvl, lst in edb.A_dict.items():
        size = 2 ** (lvl + 1) * ecl
        full[lvl] = sum(1 for b in lst if len(b) == size)
    placed = {}
    p_same = 1.0
    for seq in reads:
        for (lvl, off) in seq:
            chunk = 2 ** lvl if lvl >= 0 else 1
            avail = full[lvl] - (placed.get(lvl, 0) // (int(chunk) + 1))
            p_same *= 1.0 / max(1, avail)
            placed[lvl] = placed.get(lvl, 0) + int(chunk)
    # arrangement inside buckets
    tokens = [sch.TokenGen(key, w) for w in db]
    buckets = sorted({b for seq in reads for b in seq})
    p_prefix = 1.0
    all_prefix = True
    real_by_bucket = {b: set() for b in buckets}
    cells_by_bucket = {}
    for (lvl, off) in buckets:
        raw = list.__getitem__(edb.A_dict[lvl], off)
        cells_by_bucket[(lvl, off)] = [raw[i:i + ecl] for i in range(0, len(raw), ecl)]
    for seq, tk in zip(reads, tokens):  # a keyword's entries can only sit in the buckets its own search reads
        for bkt in set(seq):
            for pos, e in enumerate(cells_by_bucket[bkt]):
                try:
                    pt = sch.config.rnd.Decrypt(tk.etag, e)
                except ValueError:
                    continue
                if pt[-sch.config.param_lambda:] == b"\x00" * sch.config.param_lambda:
                    real_by_bucket[bkt].add(pos)
    for bkt in buckets:
        cells, real = cells_by_bucket[bkt], real_by_bucket[bkt]
        c, r = len(cells), len(real)
        if r:
            p_prefix *= 1.0 / math.comb(c, r)
            if real != set(range(r)):
                all_prefix = False
    return p_same, p_prefix, all_prefix, len(buckets)


def run_placed(case, res=None):
    scheme = case["scheme"]
    desc, loader, cfg, db = S.prepare(case)
    try:
        with entropy(case["seed"]):
            sch = loader.SSEScheme(cfg)
            key1 = sch.KeyGen()
            key2 = sch.KeyGen() if scheme == "CGKO06.SSE1" else key1
            edb1 = sch.EDBSetup(key1, db)
            edb2 = sch.EDBSetup(key2, db)
            r1 = reads_of(scheme, sch, key1, edb1, db)
            r2 = reads_of(scheme, sch, key2, edb2, db)
        # a third setup the way a NEW interpreter would do it: module-level state of the construction module is fresh
        # (module reloaded), new scheme object, different entropy; same key bytes where placement is not key-derived
        import importlib
        import sys as _sys
        modname = "schemes.%s.construction" % scheme
        with entropy((case["seed"], "fresh-interpreter")):
            mod = importlib.reload(_sys.modules[modname]) if modname in _sys.modules else importlib.import_module(modname)
            sch3 = getattr(mod, type(sch).__name__)(cfg)
            key3 = sch3.KeyGen() if scheme == "CGKO06.SSE1" else loader.SSEKey.deserialize(key1.serialize(), loader.SSEConfig(dict(cfg)))
            edb3 = sch3.EDBSetup(key3, db)
            r3 = reads_of(scheme, sch3, key3, edb3, db)
        r4 = None
        if case.get("process_boundary") and scheme != "CGKO06.SSE1":
            # ... and a fourth one in a REAL fresh interpreter (same key, same database)
            from vlib import fresh
            o = fresh.run_job({"kind": "reads", "scheme": scheme, "cfg": cfg, "key_hex": key1.serialize().hex(), "db": fresh.db_to_json(db)},
                              hashseed=5 + case["seed"] % 1000)
            if "error" in o:
                from vlib.runner import HarnessError
                raise HarnessError("fresh-interpreter setup failed: %s" % o["error"])
            if "exception" in o:
                raise Violation("%s: setup/search in a fresh interpreter raised: %s" % (scheme, o["exception"]), "%s:fresh_interpreter_exception" % scheme)
            r4 = [[tuple(x) if isinstance(x, list) else x for x in seq] for seq in o["reads"]]
            # ... and two workers forked from a parent that built the scheme object (and used it once): they share that object
            o2 = fresh.run_job({"kind": "reads_forked", "scheme": scheme, "cfg": cfg, "key_hex": key1.serialize().hex(), "db": fresh.db_to_json(db)},
                               hashseed=7 + case["seed"] % 1000)
            if "error" in o2:
                from vlib.runner import HarnessError
                raise HarnessError("forked setup failed: %s" % o2["error"])
            if "exception" in o2 or any(isinstance(x, dict) for x in o2.get("reads_list", [])):
                raise Violation("%s: setup/search in a forked worker raised: %r" % (scheme, o2.get("exception") or o2.get("reads_list")),
                                "%s:forked_worker_exception" % scheme)
            r_forked = o2["reads_list"]
        r5 = r6 = None
        if scheme != "CGKO06.SSE1":
            # other use of the library between two setups (the same small CT14 / ANSS16 / DP17 indexes are built before each): what
            # else the process does must not make two placements coincide
            with entropy((case["seed"], "prelude")):
                def prelude():
                    for other in ("CT14.Pi", "ANSS16.Scheme3", "DP17.Pi"):
                        ol = S.load(other)
                        ocfg = S.default_config(other)
                        osch = ol.SSEScheme(dict(ocfg))
                        okey = ol.SSEKey.deserialize(bytes(range(1, 1 + len(osch.KeyGen().serialize()))), ol.SSEConfig(dict(ocfg)))
                        isz = S.DESCS[other].id_size(ocfg)
                        osch.EDBSetup(okey, {b"p": [bytes([1]) * isz, bytes([2]) * isz, bytes([3]) * isz], b"q": [bytes([4]) * isz, bytes([5]) * isz]})
                prelude()
                edb5 = sch.EDBSetup(key1, db)
                prelude()
                edb6 = sch.EDBSetup(key1, db)
                r5 = reads_of(scheme, sch, key1, edb5, db)
                r6 = reads_of(scheme, sch, key1, edb6, db)
    except Violation:
        raise
    except Exception as e:
        raise stage_violation(scheme, "setup/search", e)
    flat1 = [x for seq in r1 for x in seq]
    m = len(flat1)
    info = {"blocks": m, "asserted": False}
    if scheme in ("CJJ14.PiPtr", "CJJ14.Pi2Lev"):
        slots = len(edb1.A) - 1
        p_same = 1.0 / math.factorial(min(slots, 170)) if slots == m else 0.0
        # every slot is read exactly once when all keywords are searched; the placement is a permutation of the slots
        bound = 1.0 / math.factorial(min(m, 170)) if m else 1.0
    elif scheme == "CGKO06.SSE1":
        bound = (1.0 / cfg["param_s"]) ** max(0, m - 1) if m else 1.0
    else:
        p_same, p_prefix, all_prefix, nb = dp17_bounds(sch, key1, edb1, db, r1)
        bound = p_same
        info["buckets"] = nb
        if p_prefix < EPS:
            info["asserted_arrangement"] = True
            if all_prefix:
                raise Violation("%s: in all %d buckets read, the real entries occupy the first positions (entries are not shuffled "
                                "inside buckets)" % (scheme, nb), "%s:buckets_not_shuffled" % scheme)
    if bound < EPS:
        info["asserted"] = True
        if r1 == r2:
            raise Violation("%s: two setups of the same database read exactly the same slots for every keyword (%d block reads): "
                            "placement is not (pseudo-)random" % (scheme, m), "%s:placement_repeats" % scheme)
        if r4 is not None and r1 == r4:
            raise Violation("%s: a setup in another process (fresh interpreter, same key and database) reads exactly the same slots as the "
                            "first one (%d block reads)" % (scheme, m), "%s:placement_repeats_across_processes" % scheme)
        if r5 is not None and r5 == r6:
            raise Violation("%s: two setups of the same database, each preceded by the same other use of the library (small CT14, ANSS16 and "
                            "DP17 indexes built with a fixed key), read exactly the same slots (%d block reads)" % (scheme, m),
                            "%s:placement_repeats_after_other_library_use" % scheme)
        if r4 is not None and r_forked[0] == r_forked[1]:
            raise Violation("%s: two workers forked from a parent that had built the scheme object read exactly the same slots (%d block "
                            "reads): the placement generator is duplicated by fork" % (scheme, m), "%s:placement_repeats_across_forked_workers" % scheme)
        if r1 == r3:
            raise Violation("%s: a setup in a fresh interpreter state (construction module reloaded, new scheme object, other entropy) "
                            "reads exactly the same slots as the first one (%d block reads): placement does not depend on fresh randomness" % (
                                scheme, m), "%s:placement_repeats_across_interpreters" % scheme)
        if scheme != "DP17.Pi":
            seq = flat1
            if scheme == "CJJ14.Pi2Lev":
                # two-level lists read pointer blocks first; test the allocation order = order of first use during setup
                pass
            asc = all(b == a + 1 for a, b in zip(seq, seq[1:]))
            desc_ = all(b == a - 1 for a, b in zip(seq, seq[1:]))
            if (asc or desc_) and len(seq) >= 12 and scheme != "CJJ14.Pi2Lev":
                raise Violation("%s: blocks sit in the array in input order (slots %r...)" % (scheme, seq[:6]),
                                "%s:sequential_allocation" % scheme)
            if scheme == "CJJ14.Pi2Lev" and len(seq) >= 12:
                srt = sorted(seq)
                if seq == srt or seq == srt[::-1]:
                    raise Violation("%s: blocks sit in the array in input order (slots %r...)" % (scheme, seq[:6]),
                                    "%s:sequential_allocation" % scheme)
    return info


# ---------------------------------------------------------------------------------------------------------
# generators
# ---------------------------------------------------------------------------------------------------------
@st.composite
def st_sorted_case(draw, scheme):
    desc = S.DESCS[scheme]
    cfg = desc.st_config(draw)
    shape = draw(st.integers(0, 4))
    if shape == 0:
        # 2^a keywords with 2^b postings each: N is a power of two and no table needs a dummy entry
        k = 2 ** draw(st.integers(3, 5))
        n = 2 ** draw(st.integers(0, 2))
        if n > min(desc.max_list(cfg), 256 ** desc.id_size(cfg) - 1) or k * n > min(desc.max_total(cfg), 256 ** desc.id_size(cfg) - 1) or \
                (isinstance(desc, S.Pi2Lev) and not desc.lens_ok(cfg, [n] * k)):
            n, k = 1, 16
        if k * n > 256 ** desc.id_size(cfg) - 1:
            k, n = 8, 1
        spec = draw(S.st_db_spec(desc, cfg, lens=[n] * k))
    elif shape <= 2:
        # many entries in one table: >= 12 keywords
        k = draw(st.integers(12, 20))
        cap = min(desc.max_list(cfg), 256 ** desc.id_size(cfg) - 1, 6)
        lens = [draw(st.integers(1, max(1, cap))) for _ in range(k)]
        if isinstance(desc, S.Pi2Lev) and not desc.lens_ok(cfg, lens):
            lens = [1] * k
        spec = draw(S.st_db_spec(desc, cfg, lens=lens))
    else:
        spec = draw(S.st_db_spec(desc, cfg, max_total=150, max_kw=14))
    n = len(spec["lens"])
    perm = draw(st.permutations(list(range(n))))
    if n >= 2 and draw(st.integers(0, 3)) == 0:
        perm = list(range(n))[::-1]
    return {"scheme": scheme, "part": "sorted", "cfg": cfg, "db": spec, "perm": list(perm), "seed": draw(st.integers(0, 2 ** 48))}


@st.composite
def st_placed_case(draw, scheme):
    desc = S.DESCS[scheme]
    cfg = desc.st_config(draw)
    if scheme == "CJJ14.PiPtr":
        cfg["param_B"] = draw(st.sampled_from([1, 2, 3, 4]))
        cfg["param_b"] = draw(st.sampled_from([1, 2, 3, 8, 64]))
        if cfg["param_identifier_size"] == 1:
            cfg["param_identifier_size"] = 2
        k = draw(st.sampled_from([1, 1, 2, 3, 5, 8, 10]))  # one keyword owning every block is the sharpest case
        blocks = [draw(st.integers(1, 8)) for _ in range(k)]
        if sum(blocks) < 18:
            blocks[draw(st.integers(0, k - 1))] += 18 - sum(blocks)
        lens = [draw(st.integers((c - 1) * cfg["param_B"] + 1, c * cfg["param_B"])) for c in blocks]
    elif scheme == "CJJ14.Pi2Lev":
        idsz = draw(st.sampled_from([2, 4, 8]))
        combos = [c for c in S.PI2LEV_COMBOS[idsz] if c[1] <= 3 and c[0] <= 4 and c[0] * c[2] * c[3] >= 24]
        Bk, b, Bp, bp = draw(st.sampled_from(combos))
        cfg.update(param_B=Bk, param_b=b, param_B_prime=Bp, param_b_prime=bp, param_identifier_size=idsz)
        single = [c for c in S.PI2LEV_COMBOS[idsz] if c[3] == 64 and c[0] <= 8 and max(c[1] + 1, 17 * c[0] + 1) <= min(c[0] * 64, 260)]
        if draw(st.booleans()) and single:
            # exactly one array-resident keyword in the MEDIUM case (it owns every array slot: its blocks are the whole array), all
            # other keywords stay in the dictionary - the 'one popular keyword, many rare ones' shape
            Bk, b, Bp, bp = draw(st.sampled_from(single))
            cfg.update(param_B=Bk, param_b=b, param_B_prime=Bp, param_b_prime=bp, param_identifier_size=idsz)
            n = draw(st.integers(max(b + 1, 17 * Bk + 1), min(Bk * 64, 260)))
            lens = [n] + [draw(st.integers(1, min(b, 5))) for _ in range(draw(st.integers(0, 4)))]
            if not desc.lens_ok(cfg, lens):
                lens = [n]
        else:
            lim = min(desc.limit(cfg) - 1, 40)
            k = draw(st.integers(3, 10))
            lens = [draw(st.integers(b + 1, lim)) for _ in range(k)]
            while desc.a_len(cfg, lens) - 1 < 18:
                lens.append(lim)
            if not desc.lens_ok(cfg, lens):
                lens = [min(lim, b + 1)] * 18
    elif scheme == "CGKO06.SSE1":
        if cfg["param_s"] < 32 or cfg["param_s"] > 1024:
            cfg["param_s"] = draw(st.sampled_from([32, 64, 256, 1024]))
        N = draw(st.integers(12, min(cfg["param_s"] - 1, 60)))
        k = draw(st.integers(1, 8))
        base = [N // k] * k
        base[0] += N - sum(base)
        lens = [x for x in base if x >= 1]
        cap = 256 ** desc.id_size(cfg) - 1
        if sum(lens) > cap:
            cfg["param_identifier_size"] = 4
    else:  # DP17
        if cfg["param_identifier_size"] == 1:
            cfg["param_identifier_size"] = 4
        k = draw(st.integers(20, 60))
        lens = [draw(st.sampled_from([1, 1, 1, 2, 2, 3, 4, 5, 8])) for _ in range(k)]
    spec = draw(S.st_db_spec(desc, cfg, lens=lens))
    return {"scheme": scheme, "part": "placed", "cfg": cfg, "db": spec, "seed": draw(st.integers(0, 2 ** 48))}


def run_case(case, res=None):
    if case["part"] == "sorted":
        return run_sorted(case, res)
    return run_placed(case, res)


def body(case, res):
    scheme = case["scheme"]
    fp = [scheme, case["part"], sorted((k, repr(v)) for k, v in case["cfg"].items()), case["db"]["lens"], case.get("perm")]
    sample = {"scheme": scheme, "part": case["part"], "cfg": S.public_cfg(case["cfg"]), "lens": case["db"]["lens"],
              "perm": case.get("perm"), "seed": case["seed"]}
    if case.get("huge"):
        shape = "%d keywords x %d postings" % (len(case["db"]["lens"]), case["db"]["lens"][0])
        fp = [scheme, "huge", shape, case["seed"], case["perm"][:3]]
        sample = {"scheme": scheme, "part": "sorted", "cfg": S.public_cfg(case["cfg"]), "database": shape, "perm": "reversed/shuffled keyword order",
                  "seed": case["seed"]}
    if case["part"] == "sorted":
        ident = case["perm"] == sorted(case["perm"])
        try:
            max_real = run_sorted(case, res)
        except Violation:
            res.count(fp, not ident, ["scheme:" + scheme, "part:sorted"], sample=sample)
            raise
        nt = max_real >= 12 and not ident
        res.count(fp, nt, ["scheme:" + scheme, "part:sorted", "sigma:" + ("identity" if ident else "non_identity"),
                           "max_real_entries:" + (">2**16" if max_real > 65536 else ">=12" if max_real >= 12 else "<12")], sample=sample)
    else:
        case.setdefault("process_boundary", case["seed"] % 6 == 0)
        try:
            info = run_placed(case, res)
        except Violation:
            res.count(fp, True, ["scheme:" + scheme, "part:placed"], sample=sample)
            raise
        cl = ["scheme:" + scheme, "part:placed", "placement_asserted" if info["asserted"] else "placement_bound_not_met"]
        if scheme in ("CJJ14.PiPtr", "CJJ14.Pi2Lev"):
            resident = [n for n in case["db"]["lens"] if scheme == "CJJ14.PiPtr" or n > case["cfg"]["param_b"]]
            cl.append("array_resident_keywords:" + ("1" if len(resident) == 1 else ">1"))
        if scheme == "DP17.Pi":
            cl.append("arrangement_asserted" if info.get("asserted_arrangement") else "arrangement_bound_not_met")
        res.count(fp, info["asserted"], cl, sample=sample)


HUGE = {  # more than 2**16 entries in the label table (keywords, postings per keyword, configuration)
    "CJJ14.PiBas": (700, 100, {"param_identifier_size": 4}),
    "CJJ14.PiPack": (660, 200, {"param_identifier_size": 4, "param_B": 2}),
    "CJJ14.PiPtr": (700, 100, {"param_identifier_size": 4, "param_B": 1, "param_b": 1}),
    "CJJ14.Pi2Lev": (66000, 1, {}),
    "CT14.Pi": (700, 100, {}),
    "ANSS16.Scheme3": (700, 100, {}),
}


def huge_case(scheme, seed, shuffled):
    import hashlib
    nk, per, mod = HUGE[scheme]
    cfg = S.default_config(scheme)
    cfg.update(mod)
    kws = [hashlib.sha256(b"huge%d/%d" % (seed, i)).digest()[:6].hex() for i in range(nk)]
    perm = list(range(nk))[::-1]
    if shuffled:
        perm = sorted(range(nk), key=lambda i: hashlib.sha256(b"perm%d/%d" % (seed, i)).digest())
    return {"scheme": scheme, "part": "sorted", "cfg": cfg, "huge": True,
            "db": {"id_size": S.DESCS[scheme].id_size(cfg), "kws": kws, "lens": [per] * nk, "id_mode": "be", "id_seed": seed % 1000 + 1},
            "perm": perm, "seed": seed}


def shards(tier):
    out = [{"kind": "sorted", "scheme": s} for s in SORTED_SCHEMES] + [{"kind": "placed", "scheme": s} for s in PLACED_SCHEMES]
    out += [{"kind": "huge", "scheme": s} for s in (list(HUGE)[:4] if tier == "quick" else list(HUGE))]
    if tier == "thorough":
        out += [{"kind": "sorted", "scheme": s, "i": 1} for s in SORTED_SCHEMES] + [{"kind": "placed", "scheme": s, "i": 1} for s in PLACED_SCHEMES]
    return out


def run_shard(spec, seed, tier):
    res = ShardResult()
    n = 80 if tier == "quick" else 400
    if spec["kind"] == "huge":
        first = {}
        for shuffled in ((False,) if tier == "quick" else (False, True)):
            case = huge_case(spec["scheme"], seed, shuffled)
            try:
                body(case, res)
            except Violation as v:
                first.setdefault(v.bucket, (case, str(v)))
        for bucket, (case, msg) in first.items():
            res.add_violation(case, msg, bucket)
        return res
    if spec["kind"] == "sorted":
        hyp.search(res, st_sorted_case(spec["scheme"]), body, seed, n)
    else:
        hyp.search(res, st_placed_case(spec["scheme"]), body, seed, n)
    return res


def replay(case):
    try:
        run_case(case)
    except Violation as v:
        return str(v)
    return None

"""C11 — client workflow: steps out of order are refused and the key is write-once."""
import asyncio
import contextlib
import copy
import itertools
import os
import pickle

from hypothesis import strategies as st

from vlib import hyp
from vlib import schemes as S
from vlib.drbg import entropy
from vlib.runner import HarnessError, ShardResult, Violation

ID = "C11"
LEVEL = "exploration"
RULE = ("a case is (scheme, valid configuration, small valid database, sequence of client operations drawn from {create with an "
        "invalid configuration (unknown primitive / missing field / bad key length / unknown scheme), create again on the existing "
        "sid, create-service with the service's own stored configuration (same salt), create-service with a configuration file that does not exist, generate key, encrypt database, upload configuration, upload index, search}); every operation is run with a client "
        "Service freshly loaded from disk and closed afterwards, as the CLI does, against a live in-process server; one case in three (and part of the fixed sweep) runs every operation through the command functions of frontend.client.commands (what run_client.py calls) in one process, reading the outcome from what the command prints. Oracle = "
        "5-flag reference model (created, config uploaded, key created, db encrypted, db uploaded) with the documented "
        "prerequisite relation: accepted/refused must agree; the persisted service_meta flags equal the model after every step; "
        "a refused operation leaves every file of the service (client and server side) byte-identical; the key file never "
        "changes once present; an invalid configuration creates no service directory; whenever the index is uploaded every "
        "keyword search returns DB[w]. Hypothesis histories up to 14 (quick) / 30 (thorough) steps over 3 / 9 schemes plus all "
        "sequences of depth <= 4 (quick) / <= 5 (thorough) over the 6 plain operations. Non-trivial = at least one refused and "
        "one accepted operation after the service was created; distinct = distinct (scheme, sequence).")
ASSUMPTIONS = ["operations on a sid that was never created are outside the property (the CLI cannot reach them)",
               "a refusal is any exception raised by the handler; its type is not asserted"]

PLAIN = ["genkey", "encrypt", "upload_config", "upload_edb", "search", "create_again"]
INVALID_KINDS = ["unknown_ske", "missing_field", "bad_key_length", "unknown_scheme", "unknown_prf"]
QUICK_SCHEMES = ["CJJ14.PiBas", "CJJ14.Pi2Lev", "DP17.Pi"]

CC, CU, KC, DE, DU = 0b00001, 0b00010, 0b00100, 0b01000, 0b10000


def invalid_config(scheme, kind):
    c = S.default_config(scheme)
    if scheme == "CGKO06.SSE2":
        c["param_n"] = 4
    ske_field = {"CGKO06.SSE1": "ske1", "DP17.Pi": "rnd"}.get(scheme, "ske")
    len_field = {"CGKO06.SSE1": "param_k", "CGKO06.SSE2": "param_k", "CT14.Pi": "param_k_prime", "ANSS16.Scheme3": "param_k"}.get(scheme, "param_lambda")
    prf_field = {"CGKO06.SSE2": "prp_pi", "ANSS16.Scheme3": "prf"}.get(scheme, "prf_f")
    if kind == "unknown_ske":
        c[ske_field] = "NOPE"
    elif kind == "missing_field":
        del c[len_field]
    elif kind == "bad_key_length":
        c[len_field] = 20
    elif kind == "unknown_scheme":
        c["scheme"] = "CJJ14.PiNope"
    elif kind == "unknown_prf":
        c[prf_field] = "NotAPrimitive"
    return c


def snapshot(paths):
    out = {}
    for root in paths:
        if not os.path.isdir(root):
            out[root] = None
            continue
        for dp, _, files in os.walk(root):
            for f in files:
                p = os.path.join(dp, f)
                with open(p, "rb") as fh:
                    out[p] = fh.read()
    return out


async def _guarded(svc, coro, what, scheme):
    from props.c09 import _race_closed
    return await _race_closed(svc, coro, what, scheme)


class Run:
    def __init__(self, case, ns, srv):
        self.case, self.ns, self.srv = case, ns, srv
        self.scheme = case["scheme"]
        self.Service = ns.client_service.Service
        self.flags = 0
        self.sid = None
        self.db = S.build_db(case["db"])
        self.cli = bool(case.get("cli"))
        if self.cli:
            # the command layer takes keywords as text: same posting lists under one-letter keywords
            self.db = {bytes([97 + i]): v for i, v in enumerate(self.db.values())}
            self.tmp = None
            self.n_names = 0
        self.key_bytes = None
        self.refused = 0
        self.accepted = 0
        self.trace = []

    def fail(self, msg, bucket):
        raise Violation("%s: %s | operations so far: %r" % (self.scheme, msg, self.trace), "%s:%s" % (self.scheme, bucket))

    def dirs(self):
        return [os.path.join(self.ns.client_dir, self.sid), os.path.join(self.ns.sse_dir, self.sid)]

    def client_dirs(self):
        return sorted(d for d in os.listdir(self.ns.client_dir) if os.path.isdir(os.path.join(self.ns.client_dir, d)))

    def check_persisted(self, step):
        meta_path = os.path.join(self.ns.client_dir, self.sid, "service_meta")
        try:
            with open(meta_path, "rb") as f:
                state = pickle.load(f)["state"]
        except Exception as e:
            self.fail("after %r the persisted service_meta cannot be read: %s" % (step, e), "meta_unreadable")
        if state != self.flags:
            self.fail("after %r the persisted flags are %s, the model says %s" % (step, bin(state), bin(self.flags)), "flags_mismatch:" + step[0])
        key_path = os.path.join(self.ns.client_dir, self.sid, "key")
        if self.flags & KC:
            try:
                kb = open(key_path, "rb").read()
            except FileNotFoundError:
                self.fail("after %r the key file is gone" % (step,), "key_deleted")
            if self.key_bytes is None:
                self.key_bytes = kb
            elif kb != self.key_bytes:
                self.fail("after %r the key file changed" % (step,), "key_changed")

    async def cli_call(self, fn, *a, **kw):
        import io
        buf = io.StringIO()
        with contextlib.redirect_stdout(buf):
            r = fn(*a, **kw)
            if asyncio.iscoroutine(r):
                await asyncio.wait_for(r, 60)
        return buf.getvalue()

    def cli_file(self, name, obj):
        import json
        import tempfile
        if self.tmp is None:
            self.tmp = tempfile.mkdtemp(prefix="ssepy-c11cli-")
        path = os.path.join(self.tmp, name)
        with open(path, "w", encoding="utf-8") as fh:
            json.dump(obj, fh)
        return path

    async def cli_op(self, step):
        """the operation through frontend.client.commands (the functions behind run_client.py); returns (refused?, output)"""
        import frontend.client.commands as commands
        from frontend.client.services import service_name_handler as snh
        kind = step[0]
        if kind in ("create", "create_invalid"):
            cfg = copy.deepcopy(self.case["cfg_final"]) if kind == "create" else invalid_config(self.scheme, step[1])
            self.n_names += 1
            name = "svc" if kind == "create" else "bad%d" % self.n_names
            out = await self.cli_call(commands.create_service, self.cli_file("cfg%d.json" % self.n_names, cfg), name)
            if kind == "create" and "error" not in out.lower():
                self.sid = snh.get_service_id_by_sname("svc")
        elif kind in ("create_again", "create_same_salt"):
            # create-service with the service's own stored configuration under a new name: redoes the completed create step
            import json
            with open(os.path.join(self.ns.client_dir, self.sid, "config.json")) as fh:
                stored = json.load(fh)
            self.n_names += 1
            name = "again%d" % self.n_names
            out = await self.cli_call(commands.create_service, self.cli_file("cfg%d.json" % self.n_names, stored), name)
            if "error" not in out.lower() and snh.read_service_mapping().get(name) not in (None, self.sid):
                out = "error (for this service): a different service was created; this service was not touched\n" + out
        elif kind == "create_missing_file":
            self.n_names += 1
            out = await self.cli_call(commands.create_service, os.path.join(self.tmp or "/nonexistent", "no-such-config-%d.json" % self.n_names),
                                      "missing%d" % self.n_names)
        elif kind == "genkey":
            out = await self.cli_call(commands.generate_key, sname="svc")
        elif kind == "encrypt":
            jsondb = {k.decode(): [x.hex() for x in v] for k, v in self.db.items()}
            out = await self.cli_call(commands.encrypt_database, self.cli_file("db.json", jsondb), sname="svc")
        elif kind == "upload_config":
            out = await self.cli_call(commands.upload_config, sname="svc")
        elif kind == "upload_edb":
            out = await self.cli_call(commands.upload_encrypted_database, sname="svc")
        elif kind == "search":
            w = list(self.db.keys())[step[1] % len(self.db)]
            out = await self.cli_call(commands.search, w.decode(), "hex", sname="svc")
        else:
            raise ValueError(kind)
        ok = "error" not in out.lower() and ("successfully" in out or "The result is" in out)
        return (not ok), out

    async def _echo(self, svc, got, what):
        """the non-blocking form of an upload returns right after sending: wait for the once-handler to be called"""
        t0 = asyncio.get_running_loop().time()
        while not got:
            await asyncio.sleep(0.002)
            ws = svc.websocket
            if ws is not None and ws.closed:
                raise Violation("%s: the server closed the connection during %s although its prerequisites hold" % (self.scheme, what),
                                "%s:%s:connection_closed" % (self.scheme, what))
            if asyncio.get_running_loop().time() - t0 > 30:
                raise HarnessError("no echo for %s within 30 s on an open loopback connection (inconclusive)" % what)
        await asyncio.sleep(0.01)

    async def op(self, step):
        kind = step[0]
        self.trace.append(step)
        nowait = kind.endswith("_nowait")
        if nowait and not self.cli:
            kind = kind[:-len("_nowait")]
        elif nowait:
            kind, nowait = kind[:-len("_nowait")], False   # the command functions always wait
            step = [kind] + list(step[1:])
        f = self.flags
        if self.cli and kind in ("create_invalid", "create"):
            before = self.client_dirs()
            refused, out = await self.cli_op(step)
            if kind == "create":
                if refused:
                    self.fail("the create-service command refused a valid configuration: %r" % out.strip()[-300:], "create_refused")
                self.flags = CC
                self.check_persisted(step)
                return
            if not refused:
                raise Violation("%s: the create-service command accepted a configuration the scheme cannot be instantiated with (%s) | "
                                "operations so far: %r" % (self.scheme, step[1], self.trace), "invalid_config_accepted")
            if self.client_dirs() != before:
                self.fail("a refused create-service command (%s) left a service directory behind" % step[1], "invalid_config_left_directory")
            if self.sid is not None:
                self.check_persisted(step)
            return
        if kind == "create_invalid":
            before = self.client_dirs()
            cfg = invalid_config(self.scheme, step[1])
            try:
                self.Service().handle_create_config(cfg)
            except Exception:
                pass
            else:
                raise Violation("%s: create-service accepted a configuration the scheme cannot be instantiated with (%s) | operations "
                                "so far: %r" % (self.scheme, step[1], self.trace), "invalid_config_accepted")
            if self.client_dirs() != before:
                self.fail("a refused create-service (%s) left a service directory behind" % step[1], "invalid_config_left_directory")
            return
        if kind == "create":
            cfg = copy.deepcopy(self.case["cfg_final"])
            try:
                self.sid = self.Service().handle_create_config(cfg)
            except Exception as e:
                self.fail("create-service refused a valid configuration: %s: %s" % (type(e).__name__, e), "create_refused")
            self.flags = CC
            self.check_persisted(step)
            return
        expect_ok = {
            "create_again": False,
            "create_same_salt": False,
            "create_missing_file": False,
            "genkey": bool(f & CC) and not f & KC,
            "encrypt": bool(f & CC) and bool(f & KC) and not f & DE,
            "upload_config": bool(f & CC) and not f & CU,
            "upload_edb": bool(f & CU) and bool(f & KC) and bool(f & DE) and not f & DU,
            "search": bool(f & DU),
        }[kind]
        before = snapshot(self.dirs())
        svc = None if self.cli else self.Service(self.sid)
        raised = None
        result = []
        try:
            try:
                if self.cli:
                    refused, out = await self.cli_op(step)
                    if refused:
                        raised = RuntimeError(out.strip()[-300:])
                    elif kind == "search":
                        import ast
                        line = next((l for l in out.splitlines() if "The result is" in l), None)
                        w = list(self.db.keys())[step[1] % len(self.db)]
                        result.append([bytes.fromhex(h) for h in ast.literal_eval(line.split("The result is", 1)[1].strip().rstrip("."))])
                elif kind == "create_missing_file":
                    from toolkit.config_manager import read_config
                    self.Service().handle_create_config(read_config("/nonexistent/no-such-config.json"))
                elif kind == "create_again":
                    svc.handle_create_config(copy.deepcopy(self.case["cfg_final"]))
                elif kind == "create_same_salt":
                    # create-service with the service's own stored configuration (same salt, hence the same sid): it would
                    # redo the completed create step of that service
                    import json
                    with open(os.path.join(self.ns.client_dir, self.sid, "config.json")) as fh:
                        stored = json.load(fh)
                    new_sid = self.Service().handle_create_config(stored)
                    if new_sid != self.sid:
                        # the stored configuration hashed to another service id (pickle memoisation makes the id depend on
                        # object identity of repeated strings): a NEW service was created, nothing of this one was redone
                        raise RuntimeError("a different service was created; this service was not touched")
                elif kind == "genkey":
                    svc.handle_create_key()
                elif kind == "encrypt":
                    svc.handle_encrypt_database(copy.deepcopy(self.db))
                elif kind == "upload_config" and nowait:
                    from frontend.common.constants import MsgType
                    got_echo = []
                    svc.register_echo_handler_once(MsgType.CONFIG, lambda c: got_echo.append(c))
                    await svc.handle_upload_config()          # default form: returns after sending
                    await self._echo(svc, got_echo, "upload_config")
                elif kind == "upload_edb" and nowait:
                    from frontend.common.constants import MsgType
                    got_echo = []
                    svc.register_echo_handler_once(MsgType.UPLOAD_DB, lambda c: got_echo.append(c))
                    await svc.handle_upload_encrypted_database()
                    await self._echo(svc, got_echo, "upload_edb")
                elif kind == "upload_config":
                    await _guarded(svc, svc.handle_upload_config(wait=True, wait_callback_func=lambda fu: None), "upload_config", self.scheme)
                elif kind == "upload_edb":
                    await _guarded(svc, svc.handle_upload_encrypted_database(wait=True, wait_callback_func=lambda fu: None), "upload_edb", self.scheme)
                elif kind == "search":
                    w = list(self.db.keys())[step[1] % len(self.db)]
                    await _guarded(svc, svc.handle_keyword_search(w, wait=True, wait_callback_func=lambda fu: result.append(fu.result())),
                                   "search", self.scheme)
            except (Violation, HarnessError):
                raise
            except Exception as e:
                raised = e
        finally:
            if svc is not None and kind in ("upload_config", "upload_edb", "search"):
                with contextlib.suppress(Exception):
                    await svc.close_service()
        await asyncio.sleep(0)  # let the server finish its cleanup of the closed connection
        for _ in range(5):
            await asyncio.sleep(0.001)
        if expect_ok and raised is not None:
            self.fail("%s was refused (%s: %s) although its prerequisites hold (flags %s)" % (kind, type(raised).__name__, raised, bin(f)),
                      "refused_but_allowed:" + kind)
        if not expect_ok and raised is None:
            self.fail("%s was accepted although the model refuses it (flags %s)" % (kind, bin(f)), "accepted_but_forbidden:" + kind)
        if not expect_ok:
            self.refused += 1
            after = snapshot(self.dirs())
            if after != before:
                changed = sorted(k for k in set(before) | set(after) if before.get(k) != after.get(k))
                self.fail("the refused operation %s changed files: %r" % (kind, [os.path.basename(c) for c in changed]), "refused_op_changed_files:" + kind)
        else:
            self.accepted += 1
            if kind == "genkey":
                self.flags |= KC
            elif kind == "encrypt":
                self.flags |= DE
            elif kind == "upload_config":
                self.flags |= CU
            elif kind == "upload_edb":
                self.flags |= DU
            elif kind == "search":
                desc = S.DESCS[self.scheme]
                if len(result) != 1:
                    self.fail("search delivered %d results" % len(result), "search_callback_count")
                got = (set(result[0]) if desc.result_is_set else result[0]) if self.cli else svc.sse_module_loader.SSEResult.deserialize(result[0], svc.config_object).get_result_list()
                if not S.result_matches(desc, got, self.db, w):
                    self.fail("search for %r returned %d ids, expected %d" % (w, len(got), len(self.db[w])), "wrong_search_result")
        self.check_persisted(step)

    async def final(self):
        if self.sid is not None and self.flags & DU:
            for i in range(len(self.db)):
                await self.op(["search", i])


async def run_async(case):
    from vlib import rig
    ns = rig.modules()
    rig.wipe()
    srv = await rig.Server().start()
    run = Run(case, ns, srv)
    try:
        for step in case["ops"]:
            if step[0] != "create" and step[0] != "create_invalid" and run.sid is None:
                continue  # nothing can be addressed before the service exists
            if step[0] == "create" and run.sid is not None:
                continue
            await run.op(list(step))
        await run.final()
        return run
    finally:
        await srv.stop()
        if getattr(run, "tmp", None):
            import shutil
            shutil.rmtree(run.tmp, ignore_errors=True)


def run_case(case):
    from vlib import rig
    rig.modules()
    case = dict(case)
    desc = S.DESCS[case["scheme"]]
    case["cfg_final"] = S.public_cfg(desc.finalize(case["cfg"], S.build_db(case["db"])))
    with entropy(case["seed"]):
        return rig.run(run_async(case))


@st.composite
def st_case(draw, schemes, max_ops):
    scheme = draw(st.sampled_from(schemes))
    desc = S.DESCS[scheme]
    cfg = desc.st_config(draw)
    if scheme == "CGKO06.SSE1" and cfg["param_s"] > 1024:
        cfg["param_s"] = 128
        cfg["param_dictionary_size"] = 16
    spec = draw(S.st_db_spec(desc, cfg, max_total=20, max_kw=3))
    op = st.one_of(
        st.sampled_from([["genkey"], ["encrypt"], ["upload_config"], ["upload_edb"], ["create_again"], ["create_same_salt"],
                         ["create_missing_file"], ["upload_config_nowait"], ["upload_edb_nowait"]]),
        st.tuples(st.just("search"), st.integers(0, 5)).map(list),
        st.tuples(st.just("create_invalid"), st.sampled_from(INVALID_KINDS)).map(list))
    pre = draw(st.lists(st.tuples(st.just("create_invalid"), st.sampled_from(INVALID_KINDS)).map(list), max_size=2))
    if draw(st.booleans()):
        # a complete workflow (either order of the independent prefixes) with noise operations inserted anywhere
        plan = draw(st.sampled_from([["genkey", "encrypt", "upload_config", "upload_edb"], ["upload_config", "genkey", "encrypt", "upload_edb"],
                                     ["genkey", "upload_config", "encrypt", "upload_edb"]]))
        seq = [[p + ("_nowait" if p.startswith("upload") and draw(st.integers(0, 2)) == 0 else "")] for p in plan]
        seq += [["search", draw(st.integers(0, 5))] for _ in range(draw(st.integers(1, 3)))]
        noise = draw(st.lists(op, max_size=max(1, max_ops - len(seq))))
        for nz in noise:
            seq.insert(draw(st.integers(0, len(seq))), nz)
        ops = pre + [["create"]] + seq
    else:
        ops = pre + [["create"]] + draw(st.lists(op, min_size=1, max_size=max_ops))
    case = {"scheme": scheme, "cfg": cfg, "db": spec, "ops": ops, "seed": draw(st.integers(0, 2 ** 32))}
    if draw(st.integers(0, 2)) == 0:
        case["cli"] = True  # every operation through frontend.client.commands, outcome read from what the command prints
    return case


def body(case, res):
    run = None
    try:
        run = run_case(case)
    finally:
        nt = bool(run and run.refused >= 1 and run.accepted >= 1)
        kinds = [o[0] for o in case["ops"]]
        cl = ["scheme:" + case["scheme"], "final_flags:%s" % (bin(run.flags) if run else "?")]
        if "create_invalid" in kinds:
            cl.append("has_invalid_create")
        if run and run.flags & DU:
            cl.append("reached_uploaded")
        cl.append("via:commands" if case.get("cli") else "via:Service")
        res.count([case["scheme"], case["ops"], bool(case.get("cli"))], nt, cl, sample={"scheme": case["scheme"], "ops": case["ops"]})


def exhaustive_case(scheme, word):
    cfg = S.default_config(scheme)
    ops = [["create"]]
    for a in word:
        ops.append(["search", 0] if a == "search" else [a])
    spec = {"id_size": S.DESCS[scheme].id_size(cfg), "kws": [b"kw".hex(), b"other".hex()], "lens": [3, 1], "id_mode": "be", "id_seed": 1}
    return {"scheme": scheme, "cfg": cfg, "db": spec, "ops": ops, "seed": 7}


def shards(tier):
    out = [{"kind": "hyp", "i": i} for i in range(6 if tier == "quick" else 12)]
    out += [{"kind": "exhaustive", "first": a} for a in PLAIN]
    out.append({"kind": "invalid_sweep"})
    out.append({"kind": "large"})
    return out


def run_shard(spec, seed, tier):
    res = ShardResult()
    if spec["kind"] == "hyp":
        n, ml, schemes = (40, 14, QUICK_SCHEMES) if tier == "quick" else (200, 30, S.SCHEMES)
        hyp.search(res, st_case(schemes, ml), body, seed, n)
        return res
    first = {}
    cases = []
    if spec["kind"] == "large":
        # the documented workflow with a keyword in 70 000 documents (16-byte identifiers): index and result exceed one MiB on the wire
        cfg = S.default_config("CJJ14.PiPack")
        cfg["param_identifier_size"] = 16
        case = {"scheme": "CJJ14.PiPack", "cfg": cfg, "seed": 11,
                "db": {"id_size": 16, "kws": [b"the".hex(), b"rare".hex()], "lens": [70000, 1], "id_mode": "be", "id_seed": 1},
                "ops": [["create"], ["genkey"], ["encrypt"], ["upload_config"], ["upload_edb"], ["genkey"], ["search", 0], ["encrypt"], ["search", 1]]}
        try:
            body(case, res)
        except Violation as v:
            res.add_violation(case, str(v), v.bucket)
        return res
    if spec["kind"] == "exhaustive":
        depth = 4 if tier == "quick" else 5
        for d in range(1, depth + 1):
            for rest in itertools.product(PLAIN, repeat=d - 1):
                cases.append(exhaustive_case("CJJ14.PiBas", (spec["first"],) + rest))
        res.exhaustive = True
        res.extra["exhaustive_bounds"] = "all operation sequences of depth <= %d over %r after create (one scheme)" % (depth, PLAIN)
    else:
        for scheme in S.SCHEMES:
            for kind in INVALID_KINDS:
                c = exhaustive_case(scheme, ())
                c["ops"] = [["create_invalid", kind], ["create"], ["create_invalid", kind], ["genkey"]]
                if scheme == "CGKO06.SSE1":
                    c["cfg"]["param_s"] = 64
                    c["cfg"]["param_dictionary_size"] = 16
                cases.append(c)
            for seq in ([["create"], ["create_same_salt"], ["genkey"]],
                        [["create"], ["genkey"], ["create_missing_file"], ["encrypt"], ["create_invalid", "unknown_ske"], ["upload_config"],
                         ["create_missing_file"], ["upload_edb"], ["create_missing_file"], ["search", 0]],
                        [["create"], ["genkey"], ["create_same_salt"], ["genkey"], ["encrypt"], ["upload_config"], ["upload_edb"],
                         ["create_same_salt"], ["genkey"], ["search", 0]]):
                for cli in (False, True):
                    c = exhaustive_case(scheme, ())
                    c["ops"] = seq
                    if cli:
                        c["cli"] = True
                    if scheme == "CGKO06.SSE1":
                        c["cfg"]["param_s"] = 64
                        c["cfg"]["param_dictionary_size"] = 16
                    cases.append(c)
        res.extra["invalid_sweep"] = "every invalid-configuration kind x every scheme, and create-with-the-stored-config sequences (complete)"
    res.extra["enumerated_sequences"] = len(cases)
    nvio = 0
    for case in cases:
        if nvio >= 6:
            res.exhaustive = False
            res.notes.append("enumeration stopped early after 6 violating sequences")
            break
        try:
            body(case, res)
        except Violation as v:
            nvio += 1
            if v.bucket not in first:
                first[v.bucket] = (case, str(v))
    for bucket, (case, msg) in first.items():
        res.add_violation(case, msg, bucket)
    return res


def replay(case):
    try:
        run_case(case)
    except Violation as v:
        return str(v)
    return None

#!/bin/sh
# Offline setup: hypothesis into /venv if missing; atheris (optional, fuzz stages) into /verif/.deps.
set -u
cd "$(dirname "$0")"
/venv/bin/python -c 'import hypothesis' 2>/dev/null || \
  /venv/bin/pip install -q --no-index --find-links /opt/veriftools/wheels hypothesis || exit 1
if ! PYTHONPATH=.deps /venv/bin/python -c 'import atheris' 2>/dev/null; then
  /venv/bin/pip install -q --no-index --find-links /opt/veriftools/wheels --target .deps atheris \
    || echo "setup: atheris not installable; fuzz stages will be skipped (they are never the sole decider)"
fi
mkdir -p evidence out
exit 0

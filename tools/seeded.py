#!/venv/bin/python
"""Validate a sub-agent's seeded breakage and run the checks against it.

usage: seeded.py ingest <src_dir> <name> <prop> [--tests "test/a.py test/b.py"] [--tier quick|thorough] [--props C01,C02]
  <src_dir> contains patch.diff, demo.py, notes.md (as delivered by the sub-agent)
Steps (all in a scratch worktree of /repo's HEAD under /tmp, removed afterwards):
  1. demo on the clean tree must exit 0;  2. apply the patch (must apply);  3. byte-compile the touched files;
  4. demo with the patch must exit non-zero;  5. the selected existing tests must pass with the patch;
  6. run the property's check(s) with VERIF_REPO pointing at the patched worktree.
Kept under /verif/seeded/<name>/ : patch.diff, demo.py, notes.md, meta.json.
"""
import argparse
import json
import os
import shutil
import subprocess
import sys
import tempfile
import time

HERE = os.path.dirname(os.path.dirname(os.path.abspath(__file__)))


def sh(cmd, timeout=3600, **kw):
    try:
        return subprocess.run(cmd, shell=True, capture_output=True, text=True, timeout=timeout, **kw)
    except subprocess.TimeoutExpired as e:
        class R:
            returncode = 124
            stdout = (e.stdout or b"").decode(errors="replace") if isinstance(e.stdout, bytes) else (e.stdout or "")
            stderr = "TIMEOUT"
        return R()


def tests_for(files):
    t = set()
    for f in files:
        if f.startswith("schemes/") and f.count("/") >= 3:
            a, b = f.split("/")[1:3]
            t.add("test/test_sse_schemes/test_%s_%s.py" % (a, b))
        elif f.startswith("toolkit/bits"):
            t.update(["test/test_bits.py", "test/test_fpe.py"])
        elif f.startswith("data_persistence/"):
            t.update(["test/test_persistent_array.py", "test/test_persistent_dict.py"])
        elif f.startswith("toolkit/") or f.startswith("schemes/interface") or f == "schemes/__init__.py":
            # everything except the persistence tests (they share file names in the cwd and cannot run under xdist)
            t.update(["test/test_sse_schemes", "test/test_bits.py", "test/test_fpe.py", "test/test_database_utils.py"])
        elif f.startswith("frontend/") or f in ("global_config.py", "run_client.py", "run_server.py"):
            pass
    return sorted(t)


def main():
    ap = argparse.ArgumentParser()
    ap.add_argument("cmd")
    ap.add_argument("src")
    ap.add_argument("name")
    ap.add_argument("prop")
    ap.add_argument("--tests", default=None)
    ap.add_argument("--tier", default="quick")
    ap.add_argument("--props", default=None)
    ap.add_argument("--skip-tests", action="store_true")
    a = ap.parse_args()
    src = a.src
    out = {"name": a.name, "property": a.prop, "at": time.strftime("%Y-%m-%dT%H:%M:%S"), "steps": {}}
    wt = tempfile.mkdtemp(prefix="ssepy-seed-")
    os.rmdir(wt)
    r = sh("git -C /repo worktree add --detach %s HEAD" % wt)
    assert r.returncode == 0, r.stderr
    env = dict(os.environ, PYTHONPATH=wt, PYTHONDONTWRITEBYTECODE="1", HOME=tempfile.mkdtemp(prefix="ssepy-seedhome-"))
    try:
        demo = os.path.join(src, "demo.py")
        patch = os.path.join(src, "patch.diff")
        r = sh("timeout 600 /venv/bin/python %s" % demo, cwd=wt, env=env)
        out["steps"]["demo_clean_rc"] = r.returncode
        r = sh("git -C %s apply %s" % (wt, patch))
        out["steps"]["apply_rc"] = r.returncode
        if r.returncode:
            out["steps"]["apply_err"] = r.stderr[-400:]
        files = [l.split()[-1] for l in sh("git -C %s status --porcelain" % wt).stdout.splitlines() if l.strip() and not l.startswith("??")]
        out["files"] = files
        r = sh("/venv/bin/python -m py_compile %s" % " ".join(os.path.join(wt, f) for f in files if f.endswith(".py")), env=env)
        out["steps"]["compile_rc"] = r.returncode
        env["HOME"] = tempfile.mkdtemp(prefix="ssepy-seedhome-")
        r = sh("timeout 600 /venv/bin/python %s" % demo, cwd=wt, env=env)
        out["steps"]["demo_patched_rc"] = r.returncode
        out["steps"]["demo_patched_tail"] = (r.stdout + r.stderr)[-300:]
        tests = a.tests.split() if a.tests else tests_for(files)
        out["tests"] = tests
        out["needs"] = (open(os.path.join(src, "notes.md")).read()[:1500] if os.path.exists(os.path.join(src, "notes.md")) else "")
        if tests and not a.skip_tests:
            par = "" if any("persistent" in t for t in tests) else "-n 8"
            r = sh("timeout 3000 /venv/bin/python -m pytest -q -p no:cacheprovider --timeout=900 %s %s 2>&1 | tail -15" % (par, " ".join(tests)), cwd=wt, env=env, timeout=3100)
            tail = r.stdout[-1500:]
            out["steps"]["tests_tail"] = tail[-500:]
            # failures other than the 10 baseline-failing DBMDict tests?
            failed = [l for l in tail.splitlines() if l.startswith("FAILED") or l.startswith("ERROR")]
            bad = [l for l in failed if "TestDBMDict" not in l]
            out["steps"]["tests_ok"] = not bad and ("passed" in tail)
            out["steps"]["tests_unexpected_failures"] = bad[:5]
        else:
            out["steps"]["tests_ok"] = None
            # carry over an earlier validation of the existing tests (this run only re-executed the demo and the checks)
            try:
                prev = json.load(open(os.path.join(HERE, "seeded", a.name, "meta.json")))
                for k in ("tests_ok", "tests_tail", "tests_unexpected_failures"):
                    if prev.get("steps", {}).get(k) is not None:
                        out["steps"][k] = prev["steps"][k]
                if prev.get("tests"):
                    out["tests"] = prev["tests"]
            except Exception:
                pass
        props = (a.props.split(",") if a.props else [a.prop])
        out["checks"] = {}
        for pid in props:
            cenv = dict(os.environ, VERIF_REPO=wt, PYTHONDONTWRITEBYTECODE="1", VERIF_EVIDENCE_DIR=os.path.join(wt, ".evidence"),
                        VERIF_OUT_DIR=os.path.join(wt, ".out"))
            cenv.setdefault("VERIF_SEED", "1")
            t0 = time.time()
            r = sh("timeout 3400 %s %s --tier %s" % (os.path.join(HERE, "check.py"), pid, a.tier), env=cenv, cwd=HERE, timeout=3500)
            vio = [l for l in r.stdout.splitlines() if l.startswith("VIOLATION")]
            first = [l.strip()[:400] for l in r.stdout.splitlines() if l.strip().startswith("violation:")][:2]
            out["checks"][pid] = {"tier": a.tier, "rc": r.returncode, "detected": r.returncode == 1 and bool(vio), "wall_s": round(time.time() - t0, 1),
                                  "first": first, "stderr_tail": r.stderr[-300:] if r.returncode not in (0, 1) else ""}
        dst = os.path.join(HERE, "seeded", a.name)
        os.makedirs(dst, exist_ok=True)
        for f in ("patch.diff", "demo.py", "notes.md"):
            if os.path.exists(os.path.join(src, f)):
                shutil.copy(os.path.join(src, f), os.path.join(dst, f))
        valid = (out["steps"]["demo_clean_rc"] == 0 and out["steps"]["apply_rc"] == 0 and out["steps"]["compile_rc"] == 0
                 and out["steps"]["demo_patched_rc"] not in (0, 124) and out["steps"]["tests_ok"] in (True, None))
        out["valid"] = valid
        meta_path = os.path.join(dst, "meta.json")
        old = {}
        if os.path.exists(meta_path):
            old = json.load(open(meta_path))
        hist = old.get("history", [])
        hist.append({k: out[k] for k in ("at", "checks")})
        out["history"] = hist
        json.dump(out, open(meta_path, "w"), indent=1)
        print(json.dumps({k: out[k] for k in ("name", "valid", "files", "tests", "steps", "checks")}, indent=1)[:3000])
    finally:
        sh("git -C /repo worktree remove --force %s" % wt)
        sh("rm -rf %s" % wt)


if __name__ == "__main__":
    main()

#!/venv/bin/python
"""Sensitivity protocol: apply a deliberate breakage to a scratch worktree of /repo and run a check against it.

usage: mutants.py run <name> [...]     run the named mutants (from MUTANTS below) against their properties' quick tier
       mutants.py all [-j N]           run all
       mutants.py list
Each mutant is (property ids, file, old text, new text, description).  The diff is stored in /verif/mutants/<name>.diff,
results are appended to /verif/mutants/RESULTS.json.  Nothing is ever applied to /repo itself.
"""
import json
import os
import subprocess
import sys
import tempfile
import time

HERE = os.path.dirname(os.path.dirname(os.path.abspath(__file__)))
sys.path.insert(0, HERE)
from tools.mutant_defs import MUTANTS  # noqa


def sh(cmd, **kw):
    return subprocess.run(cmd, shell=True, capture_output=True, text=True, **kw)


def run_mutant(name, tier="quick", props=None):
    m = MUTANTS[name]
    wt = tempfile.mkdtemp(prefix="ssepy-mut-")
    os.rmdir(wt)
    r = sh("git -C /repo worktree add --detach %s HEAD" % wt)
    if r.returncode:
        raise RuntimeError(r.stderr)
    out = {"name": name, "desc": m["desc"], "results": {}}
    try:
        for (f, old, new) in m["edits"]:
            p = os.path.join(wt, f)
            s = open(p).read()
            if s.count(old) != 1:
                raise RuntimeError("mutant %s: pattern occurs %d times in %s" % (name, s.count(old), f))
            open(p, "w").write(s.replace(old, new))
        diff = sh("git -C %s diff" % wt).stdout
        os.makedirs(os.path.join(HERE, "mutants"), exist_ok=True)
        open(os.path.join(HERE, "mutants", name + ".diff"), "w").write(diff)
        for pid in (props or m["props"]):
            env = dict(os.environ, VERIF_REPO=wt, PYTHONDONTWRITEBYTECODE="1")
            env.setdefault("VERIF_SEED", "1")
            t0 = time.time()
            # evidence of mutant runs must not overwrite the real evidence: run with a private evidence dir
            env["VERIF_EVIDENCE_DIR"] = os.path.join(wt, ".evidence")
            env["VERIF_OUT_DIR"] = os.path.join(wt, ".out")
            r = subprocess.run(["timeout", "-k", "10", "900", os.path.join(HERE, "check.py"), pid, "--tier", tier], env=env, capture_output=True, text=True, cwd=HERE)
            vio = [l for l in r.stdout.splitlines() if l.startswith("VIOLATION")]
            first = [l for l in r.stdout.splitlines() if l.strip().startswith("violation:")][:2]
            out["results"][pid] = {"rc": r.returncode, "killed": r.returncode == 1 and bool(vio), "wall_s": round(time.time() - t0, 1),
                                   "violations": len(vio), "first": [f.strip()[:300] for f in first],
                                   "stderr_tail": r.stderr[-300:] if r.returncode == 2 else ""}
    finally:
        sh("git -C /repo worktree remove --force %s" % wt)
        sh("rm -rf %s" % wt)
    return out


def main():
    if len(sys.argv) < 2 or sys.argv[1] == "list":
        for k, m in MUTANTS.items():
            print(k, m["props"], "-", m["desc"])
        return
    tier = "quick"
    names = []
    if sys.argv[1] == "all":
        names = list(MUTANTS)
    else:
        names = sys.argv[2:]
    jobs = 4
    if "-j" in names:
        i = names.index("-j")
        jobs = int(names[i + 1])
        del names[i:i + 2]
    if "--thorough" in names:
        names.remove("--thorough")
        tier = "thorough"
    from concurrent.futures import ThreadPoolExecutor
    res_path = os.path.join(HERE, "mutants", "RESULTS.json")
    try:
        allres = json.load(open(res_path))
    except Exception:
        allres = {}
    with ThreadPoolExecutor(jobs) as ex:
        def safe(n):
            try:
                return run_mutant(n, tier)
            except Exception as e:
                return {"name": n, "desc": MUTANTS[n]["desc"], "results": {p: {"rc": -1, "killed": False, "wall_s": 0, "violations": 0,
                                                                              "first": ["MUTANT DOES NOT APPLY: %s" % e], "stderr_tail": ""}
                                                                          for p in MUTANTS[n]["props"]}}
        for out in ex.map(safe, names):
            allres[out["name"]] = out
            for pid, r in out["results"].items():
                print("%-40s %s %s rc=%d %.0fs %s" % (out["name"], pid, "KILLED  " if r["killed"] else "SURVIVED", r["rc"], r["wall_s"],
                                                      (r["first"] or [r["stderr_tail"]])[0][:150]))
    os.makedirs(os.path.dirname(res_path), exist_ok=True)
    json.dump(allres, open(res_path, "w"), indent=1, sort_keys=True)


if __name__ == "__main__":
    main()

"""Deliberate breakages used for the sensitivity protocol (DESIGN.md section 4). Never applied to /repo."""

MUTANTS = {}


def M(name, props, desc, *edits):
    MUTANTS[name] = {"props": props, "desc": desc, "edits": list(edits)}


# ---------------------------------------------------------------- C01 / C02
M("c01_pipack_offbyone", ["C01"], "PiPack partition drops the last identifier of a full block",
  ("toolkit/database_utils.py", "block = b''.join(identifier_list[i:i + entry_count_in_one_block])",
   "block = b''.join(identifier_list[i:i + entry_count_in_one_block - (1 if entry_count_in_one_block > 2 and len(identifier_list) == 2 * entry_count_in_one_block else 0)])"))
M("c01_pi2lev_threshold", ["C01"], "Pi2Lev medium/large threshold <= -> <",
  ("schemes/CJJ14/Pi2Lev/construction.py", "elif self.config.param_b < len(database[keyword]) <= self.config.param_B * self.config.param_b_prime:",
   "elif self.config.param_b < len(database[keyword]) < self.config.param_B * self.config.param_b_prime:"))
M("c01_ct14_chunk_cmp", ["C01"], "CT14 chunk test > -> >=",
  ("schemes/CT14/Pi/construction.py", "if 2 ** j > len(padded_database[keyword]) - c:", "if 2 ** j >= len(padded_database[keyword]) - c and j > 0:"))
M("c01_dp17_adjacent", ["C01"], "DP17 _find_adjacent_i >= -> >",
  ("schemes/DP17/Pi/construction.py", "if self.config.param_L * 2 ** (levels_list[mid]) >= db_w_len:", "if self.config.param_L * 2 ** (levels_list[mid]) > db_w_len:"))
M("c01_anss16_pow2_truncate", ["C01"], "ANSS16 returns ni-1 ciphers when ni is a power of two > 1",
  ("schemes/ANSS16/Scheme3/construction.py", "for cipher in cipher_list[:ni]))", "for cipher in cipher_list[:ni - (1 if ni > 1 and ni & (ni - 1) == 0 else 0)]))"))
M("c01_sse1_last_marker", ["C01"], "SSE-1 stops at the first node whose next address is zero (ignores the key half of the marker)",
  ("schemes/CGKO06/SSE1/construction.py", "if K_prime == b'\\x00' * len(K_prime) and node_addr == b'\\x00' * len(node_addr):",
   "if node_addr == b'\\x00' * len(node_addr):"))
M("c01_sse2_token_short", ["C01"], "SSE-2 generates one token too few",
  ("schemes/CGKO06/SSE2/construction.py", "for i in range(1, self.config.param_n + 1):", "for i in range(1, self.config.param_n):"))
M("c01_piptr_index_width", ["C01"], "PiPtr index width computed with floor instead of ceil",
  ("schemes/CJJ14/PiPtr/construction.py", "index_size_in_A = math.ceil(math.log2(A_len) / 8)", "index_size_in_A = max(1, math.floor(math.log2(A_len) / 8))"))
M("c02_pibas_getitem", ["C02"], "PiBas search uses D[addr] instead of D.get(addr)",
  ("schemes/CJJ14/PiBas/construction.py", "cipher = D.get(addr)", "cipher = D[addr]"))
M("c02_sse1_no_none_check", ["C02"], "SSE-1 search drops the `theta is None` return",
  ("schemes/CGKO06/SSE1/construction.py", "        if theta is None:\n            return SSE1Result([])\n", "        if theta is None:\n            theta = next(iter(T.values()))\n"))
M("c02_dp17_accept_all", ["C01", "C02"], "DP17 search adds every decryptable plaintext, ignoring the zero suffix",
  ("schemes/DP17/Pi/construction.py", "if plaintext[-self.config.param_lambda:] == b\"\\x00\" * self.config.param_lambda:", "if True:"))
M("c02_ct14_prefix_label", ["C02"], "CT14 derives keyword keys from the first 4 bytes of the keyword only when longer than 6",
  ("schemes/CT14/Pi/construction.py", "        K0_concat_K1 = self.config.prf_f(K, keyword)\n", "        K0_concat_K1 = self.config.prf_f(K, keyword[:6])\n"),
  ("schemes/CT14/Pi/construction.py", "            Kw0_concat_Kw1 = self.config.prf_f(K, keyword)\n", "            Kw0_concat_Kw1 = self.config.prf_f(K, keyword[:6])\n"))

# ---------------------------------------------------------------- C03
M("c03_pibas_token_swap", ["C03"], "PiBas token deserialize swaps K1/K2",
  ("schemes/CJJ14/PiBas/structures.py", "        return cls(K1, K2, config)\n\n    def __eq__(self, other):\n        if not isinstance(other, PiBasToken):",
   "        return cls(K2, K1, config)\n\n    def __eq__(self, other):\n        if not isinstance(other, PiBasToken):"))
M("c03_ct14_token_split", ["C03"], "CT14 token deserialize splits at param_k_prime",
  ("schemes/CT14/Pi/structures.py", "K1, K2 = xbytes[:config.param_k], xbytes[config.param_k:]", "K1, K2 = xbytes[:config.param_k_prime], xbytes[config.param_k_prime:]"))
M("c03_sse1_token_split", ["C03"], "SSE-1 token deserialize splits at param_k",
  ("schemes/CGKO06/SSE1/structures.py", "gamma, eta = xbytes[:config.param_l], xbytes[config.param_l:]", "gamma, eta = xbytes[:config.param_k], xbytes[config.param_k:]"))
M("c03_dp17_key_order", ["C03"], "DP17 key deserialize swaps k2/k3",
  ("schemes/DP17/Pi/structures.py", "        return cls(k1, k2, k3, config)", "        return cls(k1, k3, k2, config)"))
M("c03_anss16_token_widths", ["C03"], "ANSS16 token deserialize uses l' for the first label",
  ("schemes/ANSS16/Scheme3/structures.py", "li, Ki, li_prime, Ki_prime = split_bytes_given_slice_len(xbytes, [config.param_l,\n                                                                          config.param_k,\n                                                                          config.param_l_prime,",
   "li, Ki, li_prime, Ki_prime = split_bytes_given_slice_len(xbytes, [config.param_l_prime,\n                                                                          config.param_k,\n                                                                          config.param_l,"))
M("c03_pi2lev_edb_drops_A0", ["C03"], "Pi2Lev EDB deserialize rebuilds A without its last slot",
  ("schemes/CJJ14/Pi2Lev/structures.py", "        D, A = pickle.loads(data_bytes)\n        return cls(D, A)", "        D, A = pickle.loads(data_bytes)\n        return cls(D, A[:-1] + [None] if len(A) > 3 else A)"))

# ---------------------------------------------------------------- C04
M("c04_pibas_plain_id", ["C04"], "PiBas stores the identifier in the clear next to the ciphertext",
  ("schemes/CJJ14/PiBas/construction.py", "d = self.config.ske.Encrypt(K2, identifier)", "d = self.config.ske.Encrypt(K2, identifier) + identifier"),
  ("schemes/CJJ14/PiBas/construction.py", "result.append(self.config.ske.Decrypt(K2, cipher))", "result.append(self.config.ske.Decrypt(K2, cipher[:-(len(cipher) % 16) or None]))"))
M("c04_aes_constant_iv", ["C04", "C14"], "AES-CBC uses a constant IV",
  ("toolkit/symmetric_encryption/aes.py", "iv = os.urandom(algorithms.AES.block_size // 8)", "iv = b'\\x00' * (algorithms.AES.block_size // 8)"))
M("c04_aes_iv_from_message", ["C04", "C14"], "AES-CBC derives the IV from the message",
  ("toolkit/symmetric_encryption/aes.py", "iv = os.urandom(algorithms.AES.block_size // 8)", "import hashlib\n        iv = hashlib.sha256(message).digest()[:16]"))
M("c04_pibas_unkeyed_label", ["C04"], "PiBas labels are derived from a constant key",
  ("schemes/CJJ14/PiBas/construction.py", "            K1 = self.config.prf_f(K, b'\\x01' + keyword)\n            K2 = self.config.prf_f(K, b'\\x02' + keyword)\n            for c,",
   "            K1 = self.config.prf_f(b'\\x00' * len(K), b'\\x01' + keyword)\n            K2 = self.config.prf_f(K, b'\\x02' + keyword)\n            for c,"),
  ("schemes/CJJ14/PiBas/construction.py", "        K1 = self.config.prf_f(K, b'\\x01' + keyword)\n        K2 = self.config.prf_f(K, b'\\x02' + keyword)\n        return PiBasToken(K1, K2)",
   "        K1 = self.config.prf_f(b'\\x00' * len(K), b'\\x01' + keyword)\n        K2 = self.config.prf_f(K, b'\\x02' + keyword)\n        return PiBasToken(K1, K2)"))
M("c04_sse1_keyword_in_table", ["C04"], "SSE-1 uses the padded keyword itself as look-up key",
  ("schemes/CGKO06/SSE1/construction.py", "            T[bytes(self.config.prp_pi(Bitset(K3, length=self.config.param_k_bits),\n                                       Bitset(keyword, length=self.config.param_l_bits)))] = \\",
   "            T[add_leading_zeros(keyword, self.config.param_l)] = \\"),
  ("schemes/CGKO06/SSE1/construction.py", "        return SSE1Token(bytes(self.config.prp_pi(Bitset(K3, length=self.config.param_k_bits),\n                                                  Bitset(keyword, length=self.config.param_l_bits))),",
   "        return SSE1Token(add_leading_zeros(keyword, self.config.param_l),"))
M("c04_dp17_plain_bucket", ["C04"], "DP17 stores id||0^lambda unencrypted for ids whose first byte is even",
  ("schemes/DP17/Pi/construction.py", "                        cipher_list.append(self.config.rnd.Encrypt(self.config.prf_f(k3, keyword),\n                                                                   identifier + b\"\\x00\" * self.config.param_lambda))",
   "                        _c = self.config.rnd.Encrypt(self.config.prf_f(k3, keyword), identifier + b\"\\x00\" * self.config.param_lambda)\n                        cipher_list.append((identifier + _c)[:len(_c)] if identifier[0] % 2 == 0 else _c)"))

# ---------------------------------------------------------------- C05
M("c05_sse1_no_array_filler", ["C05"], "SSE-1 leaves unused array cells as one zero byte",
  ("schemes/CGKO06/SSE1/construction.py", "            if A[i] == b'\\x00':\n                A[i] = os.urandom(existing_entry_size)", "            if A[i] == b'\\x00':\n                pass"))
M("c05_sse1_table_short_filler", ["C05"], "SSE-1 pads the look-up table with 8-byte values",
  ("schemes/CGKO06/SSE1/construction.py", "T[os.urandom(self.config.param_l)] = os.urandom(self.config.prf_f.output_length)", "T[os.urandom(self.config.param_l)] = os.urandom(8)"))
M("c05_ct14_no_level_padding", ["C05"], "CT14 does not pad level 1",
  ("schemes/CT14/Pi/construction.py", "            L_list[i].extend(\n", "            if i != 1:\n              L_list[i].extend(\n"))
M("c05_dp17_short_filler", ["C05"], "DP17 bucket filler is one byte short",
  ("schemes/DP17/Pi/construction.py", "cipher_list.append(os.urandom(self.config.param_identifier_cipher_len))", "cipher_list.append(os.urandom(self.config.param_identifier_cipher_len - 1))"))
M("c05_pipack_no_padding", ["C05"], "PiPack does not zero-pad the last block",
  ("toolkit/database_utils.py", "        if len(block) < block_size_bytes:\n            block += b'\\x00' * (block_size_bytes - len(block))", "        if len(block) < block_size_bytes and len(block) % 16 == 5:\n            block += b'\\x00' * (block_size_bytes - len(block))"))
M("c05_dp17_ht_not_padded", ["C05"], "DP17 hash table is not padded to N entries",
  ("schemes/DP17/Pi/construction.py", "        for _ in range(N - len(HT)):", "        for _ in range(0):"))

# ---------------------------------------------------------------- C06
M("c06_pibas_no_sort", ["C06"], "PiBas table is built without sorting",
  ("schemes/CJJ14/PiBas/structures.py", "        kv_pairs.sort(key=lambda pair: pair[0])\n", "        pass\n"))
M("c06_ct14_no_sort", ["C06"], "CT14 hash tables are built without sorting",
  ("schemes/CT14/Pi/structures.py", "        kv_pairs.sort(key=lambda pair: pair[0])\n", "        pass\n"))
M("c06_anss16_no_sort", ["C06"], "ANSS16 hash tables are built without sorting",
  ("schemes/ANSS16/Scheme3/structures.py", "        kv_pairs.sort(key=lambda pair: pair[0])\n", "        pass\n"))
M("c06_piptr_sequential", ["C06"], "PiPtr allocates array slots sequentially",
  ("schemes/CJJ14/PiPtr/construction.py", "available_pos_list = random.sample(range(1, A_len), A_len - 1)", "available_pos_list = list(range(A_len - 1, 0, -1))"))
M("c06_pi2lev_sequential", ["C06"], "Pi2Lev allocates array slots sequentially",
  ("schemes/CJJ14/Pi2Lev/construction.py", "available_pos_list = random.sample(range(1, A_len), A_len - 1)", "available_pos_list = list(range(A_len - 1, 0, -1))"))
M("c06_sse1_addr_is_counter", ["C06"], "SSE-1 uses the counter itself as array address",
  ("schemes/CGKO06/SSE1/construction.py", "                addr_in_A = self.config.prp_psi(Bitset(K1, length=self.config.param_k_bits),\n                                                Bitset(ctr, length=self.config.param_log2_s))",
   "                addr_in_A = Bitset(ctr, length=self.config.param_log2_s)"),
  ("schemes/CGKO06/SSE1/construction.py", "                N_i_j = identifier + K_i[j] + bytes(self.config.prp_psi(\n                    Bitset(K1, length=self.config.param_k_bits),\n                    Bitset(ctr + 1, length=self.config.param_log2_s)\n                ))",
   "                N_i_j = identifier + K_i[j] + bytes(Bitset(ctr + 1, length=self.config.param_log2_s))"),
  ("schemes/CGKO06/SSE1/construction.py", "            last_node_addr_in_A = self.config.prp_psi(Bitset(K1, length=self.config.param_k_bits),\n                                                      Bitset(ctr, length=self.config.param_log2_s))",
   "            last_node_addr_in_A = Bitset(ctr, length=self.config.param_log2_s)"))
M("c06_dp17_first_bucket", ["C06"], "DP17 always picks the first bucket with space",
  ("schemes/DP17/Pi/construction.py", "x = random.choice(A)", "x = A[0]"))
M("c06_dp17_no_shuffle", ["C06"], "DP17 does not shuffle bucket entries",
  ("schemes/DP17/Pi/construction.py", "                random.shuffle(w_id_pair_list)\n", "                pass\n"))

# ---------------------------------------------------------------- C07
M("c07_ct14_no_deepcopy", ["C07"], "CT14 pads the caller's database in place",
  ("schemes/CT14/Pi/construction.py", "padded_database = copy.deepcopy(database)", "padded_database = database"))
M("c07_anss16_shallow_copy", ["C07"], "ANSS16 copies the database shallowly (lists are padded in place)",
  ("schemes/ANSS16/Scheme3/construction.py", "padded_database = {keyword: list(identifier_list) for keyword, identifier_list in database.items()}", "padded_database = dict(database)"))
M("c01_anss16_deepcopy_again", ["C01"], "ANSS16 copies the database with copy.deepcopy again (a list shared by two keywords is padded twice: finding 16)",
  ("schemes/ANSS16/Scheme3/construction.py", "padded_database = {keyword: list(identifier_list) for keyword, identifier_list in database.items()}",
   "padded_database = copy.deepcopy(database)"))
M("c07_pibas_pop", ["C07"], "PiBas search pops entries from the index",
  ("schemes/CJJ14/PiBas/construction.py", "cipher = D.get(addr)", "cipher = D.pop(addr, None)"))
M("c07_piptr_config_setdefault", ["C07"], "PiPtr config writes a default into the caller's dict",
  ("schemes/CJJ14/PiPtr/config.py", "        self.param_lambda = config_dict.get(\"param_lambda\")\n", "        self.param_lambda = config_dict.get(\"param_lambda\")\n        config_dict.setdefault(\"param_cache\", 1)\n"))
M("c07_dp17_consume_bucket", ["C07"], "DP17 search empties the bucket it has read",
  ("schemes/DP17/Pi/construction.py", "                for e in toolkit.list_utils.chunks(A_dict[i][offset], self.config.param_identifier_cipher_len):",
   "                _b = A_dict[i][offset]\n                if len(result) > 2:\n                    A_dict[i][offset] = b\"\"\n                for e in toolkit.list_utils.chunks(_b, self.config.param_identifier_cipher_len):"))
M("c07_sse2_sorts_db", ["C07"], "SSE-2 setup sorts the caller's posting lists",
  ("schemes/CGKO06/SSE2/construction.py", "            s_prime += len(database[keyword])\n", "            s_prime += len(database[keyword])\n            database[keyword].sort()\n"))

# ---------------------------------------------------------------- C08
M("c08_hmac_truncates_key", ["C08"], "HmacPRF truncates an over-long key instead of raising",
  ("toolkit/prf/hmac_prf.py", "        if self.key_length != LENGTH_UNLIMITED and len(key) != self.key_length:\n            raise ValueError(\n                \"The key length of the PRF does not meet the definition.\")",
   "        if self.key_length != LENGTH_UNLIMITED and len(key) != self.key_length:\n            key = key[:self.key_length]"))
M("c08_check_param_noop", ["C08"], "check_param_exist is a no-op",
  ("schemes/interface/config.py", "            if config_dict.get(param_field, -1) == -1:", "            if False:"))
M("c08_pi2lev_no_width_check", ["C08"], "Pi2Lev drops its index-width consistency check",
  ("schemes/CJJ14/Pi2Lev/config.py", "        if (self.param_b * self.param_identifier_size) // self.param_b_prime != self.param_index_size_of_A:", "        if False:"))
M("c08_partition_no_size_check", ["C08", "C17"], "partition_identifiers_to_blocks drops its block-size check",
  ("toolkit/database_utils.py", "    if block_size_bytes < entry_count_in_one_block * identifier_size:", "    if False:"))
M("c08_partition_no_capacity_check", ["C08"], "partition_identifiers_to_blocks accepts a non-positive capacity again",
  ("toolkit/database_utils.py", "    if entry_count_in_one_block <= 0:", "    if False:"))

# ---------------------------------------------------------------- C14
M("c14_no_padding_when_aligned", ["C14"], "no padding block for block-aligned messages",
  ("toolkit/symmetric_encryption/aes.py", "        padded_message = pkcs7_pad(message, algorithms.AES.block_size)",
   "        padded_message = pkcs7_pad(message, algorithms.AES.block_size) if len(message) % 16 or not message else message"),
  ("toolkit/symmetric_encryption/aes.py", "        output = pkcs7_unpad(padded_plaintext, algorithms.AES.block_size)\n",
   "        try:\n            output = pkcs7_unpad(padded_plaintext, algorithms.AES.block_size)\n        except ValueError:\n            output = padded_plaintext\n"))
M("c14_no_keylen_check", ["C14"], "Encrypt does not check the key length against the declared one",
  ("toolkit/symmetric_encryption/aes.py", "        if len(key) != self.key_length:\n            raise ValueError(\"Key length mismatch for AES-CBC.\")\n\n        # PKCS7 Padding",
   "        # PKCS7 Padding"))
M("c14_no_msglen_check", ["C14"], "Encrypt ignores the declared message length",
  ("toolkit/symmetric_encryption/aes.py", "        if self.message_length != LENGTH_UNLIMITED and len(\n                message) != self.message_length:", "        if False:"))
M("c14_ctor_accepts_20", ["C14"], "constructor accepts 20-byte keys",
  ("toolkit/symmetric_encryption/aes.py", "if key_length not in [16, 24, 32]:", "if key_length not in [16, 20, 24, 32]:"))

# ---------------------------------------------------------------- C15
M("c15_ffx_odd_rounds", ["C15"], "FFX with an odd number of rounds",
  ("toolkit/symmetric_encryption/fpe.py", "DEFAULT_ROUNDS = 10", "DEFAULT_ROUNDS = 9"))
M("c15_ffx_padded_split", ["C15"], "FFX splits with the padding halving helper",
  ("toolkit/symmetric_encryption/fpe.py", "        return half_bits_not_padding(v)", "        return half_bits(v)"))
M("c15_ffx_decrypt_order", ["C15"], "FFX decrypt runs the rounds in encryption order",
  ("toolkit/symmetric_encryption/fpe.py", "        for i in range(self.rounds - 1, -1, -1):", "        for i in range(self.rounds):"))
M("c15_lr_no_swap", ["C15"], "Luby-Rackoff does not swap the halves in the last round",
  ("toolkit/prp/luby_rackoff_prp.py", "        return curr_left + curr_right", "        return curr_right + curr_left"))
M("c15_lr_two_rounds", ["C15"], "Luby-Rackoff with two rounds",
  ("toolkit/prp/luby_rackoff_prp.py", "        for i in range(3):", "        for i in range(2):"))
M("c15_lr_noninjective", ["C15"], "Luby-Rackoff round XORs the PRF of the left half (not invertible Feistel)",
  ("toolkit/prp/luby_rackoff_prp.py", "next_left, next_right = curr_right, bytes_xor(curr_left, self.underlying_prf(key_list[i], curr_right))",
   "next_left, next_right = curr_right, bytes_xor(curr_left, self.underlying_prf(key_list[i], curr_left))"))
M("c15_fpeprp_no_len_check", ["C15"], "BitwiseFPEPRP does not check the message bit length",
  ("toolkit/prp/bitwise_fpe_prp.py", "        if len(message) != self.message_bit_length:", "        if False:"))

# ---------------------------------------------------------------- C16
M("c16_a_not_chained", ["C16"], "P_hash does not chain A(i)",
  ("toolkit/prf/hmac_prf.py", "        a = hash_func(key, a).digest()\n", "        a = hash_func(key, message).digest()\n"))
M("c16_n_floor", ["C16"], "P_hash computes the block count with floor division",
  ("toolkit/prf/hmac_prf.py", "    n = (output_len + hash_len - 1) // hash_len", "    n = max(1, output_len // hash_len)"))
M("c16_ctr_from_zero", ["C16"], "hash counter starts at 0",
  ("toolkit/hash.py", "        c = 1\n", "        c = 0\n"))
M("c16_msg_truncated", ["C16"], "hash ignores message bytes beyond 64",
  ("toolkit/hash.py", "            result += self.hash_func(message + int_to_bytes(c)).digest()", "            result += self.hash_func(message[:64] + int_to_bytes(c)).digest()"))
M("c16_no_keylen_check", ["C16"], "PRF ignores the declared key length",
  ("toolkit/prf/hmac_prf.py", "        if self.key_length != LENGTH_UNLIMITED and len(key) != self.key_length:", "        if False:"))

# ---------------------------------------------------------------- C17
M("c17_parser_stops_at_zero_byte", ["C17"], "parser stops at the first identifier that starts with a zero byte",
  ("toolkit/database_utils.py", "        if identifier == b'\\x00' * len(identifier):\n            break", "        if identifier[:1] == b'\\x00':\n            break"))
M("c17_split_lt", ["C17"], "split loop uses < on a stale bound",
  ("toolkit/bytes_utils.py", "    while c != len(xbytes):", "    while c < len(xbytes) - 1:"))
M("c17_add_leading_zeros_truncates", ["C17"], "add_leading_zeros truncates to the requested length",
  ("toolkit/bytes_utils.py", "    return b'\\x00' * max(output_len - len(xbytes), 0) + xbytes", "    return (b'\\x00' * max(output_len - len(xbytes), 0) + xbytes)[-output_len:] if output_len else xbytes"))
M("c17_convert_db_dedup", ["C17"], "database conversion drops repeated identifiers",
  ("toolkit/database_utils.py", "            identifier_bytes_list.append(bytes.fromhex(identifier))", "            if bytes.fromhex(identifier) not in identifier_bytes_list:\n                identifier_bytes_list.append(bytes.fromhex(identifier))"))

# ---------------------------------------------------------------- C18
M("c18_width_check_ge", ["C18"], "Bitset width check uses >=",
  ("toolkit/bits.py", "        if length and value.bit_length() > length:", "        if length and value.bit_length() >= length and length > 9:"))
M("c18_invert_no_mask", ["C18"], "__invert__ without mask",
  ("toolkit/bits.py", "        b = Bitset((~self.value) & ((1 << self.length) - 1))", "        b = Bitset((~self.value) & ((1 << max(self.length, 8)) - 1))"))
M("c18_lower_bits_mask", ["C18"], "get_lower_bits off by one for lengths > 64",
  ("toolkit/bits.py", "        return Bitset((self << max(self.length - bit_len, 0)) >> max(self.length - bit_len, 0), bit_len)",
   "        return Bitset((self << max(self.length - bit_len, 0)) >> max(self.length - bit_len - (1 if self.length > 64 and bit_len == 33 else 0), 0), bit_len)"))
M("c18_bytes_little_endian_tail", ["C18"], "bytes() of a Bitset whose length is 17 is little-endian",
  ("toolkit/bits.py", "        return self.value.to_bytes(output_length, byteorder=\"big\")", "        return self.value.to_bytes(output_length, byteorder=\"big\" if self.length != 17 else \"little\")"))
M("c18_float_log_width", ["C18"], "the original float-log width (re-introduces the fixed defect)",
  ("toolkit/bits.py", "self.length = length or max(value, 0).bit_length()", "self.length = length or math.floor(math.log(value, 2)) + 1"))

# ---------------------------------------------------------------- C19
M("c19_no_rollback", ["C19"], "slice assignment does not roll back",
  ("data_persistence/persistent_array.py", "                self[key] = old_items\n                raise", "                raise"))
M("c19_offset_item_size_minus_1", ["C19"], "read offset computed with item_size-1 in chunk files beyond the first",
  ("data_persistence/persistent_array.py", "        offset_bytes = offset * self.__item_size\n        file.seek(offset_bytes, 0)\n        ret = file.read(self.__item_size)",
   "        offset_bytes = offset * (self.__item_size - (1 if file_id > 1 else 0))\n        file.seek(offset_bytes, 0)\n        ret = file.read(self.__item_size)"))
M("c19_neg_index_again", ["C19"], "negative-index read regression (the fixed defect)",
  ("data_persistence/persistent_array.py", "        ret = self._get_bytes_by_index(index % len(self))", "        ret = self._get_bytes_by_index(index)"))
M("c19_slice_set_stops_early", ["C19"], "slice assignment with negative stride writes one element less",
  ("data_persistence/persistent_array.py", "                for index in range(start, stop, stride):\n                    old_items.append(self[index])",
   "                for index in range(start, stop + (1 if stride < -1 else 0), stride):\n                    old_items.append(self[index])"))
M("c19_closed_len_works", ["C19"], "len() keeps working on a closed array",
  ("data_persistence/persistent_array.py", "    __iter__ = __len__ = __getitem__ = __setitem__ = release = close = closed\n    item_size = local_path",
   "    __iter__ = __getitem__ = __setitem__ = release = close = closed\n\n    def __len__(self):\n        return 0\n    item_size = local_path"))

# ---------------------------------------------------------------- C20
M("c20_from_dict_no_copy", ["C20"], "PickledDict.from_dict keeps a reference to the source dict",
  ("data_persistence/persistent_dict.py", "pickled_dict.__data = dict(dict_)  # Be Careful, Copy!", "pickled_dict.__data = dict_"))
M("c20_close_without_sync", ["C20"], "PickledDict.close does not sync when the dict is empty",
  ("data_persistence/persistent_dict.py", "            if not self.__file.closed:\n                self.sync()", "            if not self.__file.closed:\n                if len(self.__data) != 2:\n                    self.sync()"))
M("c20_setitem_no_check", ["C20"], "PickledDict accepts non-bytes values",
  ("data_persistence/persistent_dict.py", "        if not isinstance(value, typing.ByteString):\n            raise TypeError(\n                \"The content should be a byte string.\"\n            )\n\n        self.__data[key] = value",
   "        self.__data[key] = value"))
M("c20_dbm_clear_cache_only", ["C20"], "DBMDict.clear only clears the write-back cache",
  ("data_persistence/persistent_dict.py", "    def clear(self):\n        self.__shelf.clear()", "    def clear(self):\n        self.__shelf.cache.clear()"))
M("c20_clear_rebinds", ["C20"], "PickledDict.clear rebinds the data (the fixed defect)",
  ("data_persistence/persistent_dict.py", "    def clear(self):\n        self.__data.clear()", "    def clear(self):\n        self.__data = {}"))
M("c20_dbm_delete_keeps_cache", ["C20"], "shelf delete does not evict the cache entry",
  ("data_persistence/bytes_shelf.py", "        del self.dict[key]\n        try:\n            del self.cache[key]\n        except KeyError:\n            pass", "        del self.dict[key]"))

# ---------------------------------------------------------------- C09 / C10 / C11 (frontend)
M("c10_config_guard_dropped", ["C10"], "server accepts a second configuration in state 1",
  ("frontend/server/services/service.py", "        if self.get_current_service_state() != SERVICE_STATE.NOT_EXISTS:\n            reason = f\"The config of service {self.short_sid} has been already uploaded.\"",
   "        if self.get_current_service_state() == SERVICE_STATE.ALL_READY:\n            reason = f\"The config of service {self.short_sid} has been already uploaded.\""))
M("c10_upload_guard_dropped", ["C10"], "server accepts a second index in the ready state",
  ("frontend/server/services/service.py", "        if self.get_current_service_state() == SERVICE_STATE.ALL_READY:\n            reason = f\"The database of service {self.short_sid} has been already uploaded.\"",
   "        if False:\n            reason = f\"The database of service {self.short_sid} has been already uploaded.\""))
M("c10_state_not_written_after_upload", ["C10", "C09"], "server does not persist the ready state after the index upload",
  ("frontend/server/services/service.py", "        self.service_meta[\"state\"] = SERVICE_STATE.ALL_READY\n        FileManager.write_service_meta(self.sid, self.service_meta)",
   "        self.service_meta[\"state\"] = SERVICE_STATE.ALL_READY"),
  ("frontend/server/services/service.py", "    def close_service(self):\n        self._store_service_meta()", "    def close_service(self):\n        pass"))
M("c10_foreign_sid_accepted", ["C10"], "server does not compare the sid of incoming messages",
  ("frontend/server/services/service.py", "            if msg_type is None or sid is None or sid != self.sid:", "            if msg_type is None or sid is None:"))
M("c10_search_in_state1", ["C10"], "search is served in state 1 (empty result)",
  ("frontend/server/services/service.py", "        if self.get_current_service_state() == SERVICE_STATE.CONFIG_UPLOADED_BUT_EDB_NOT_UPLOADED:\n            reason = f\"The encrypted database of service {self.short_sid} has not been uploaded.\"\n            self.send_message(MsgType.RESULT, pickle.dumps({\"ok\": False, \"reason\": reason}))\n            logger.error(reason)\n            raise ValueError(reason)",
   "        if self.get_current_service_state() == SERVICE_STATE.CONFIG_UPLOADED_BUT_EDB_NOT_UPLOADED:\n            self.send_message(MsgType.RESULT, content=pickle.dumps([]), token_digest=raw_msg_dict.get(\"token_digest\"))\n            return"))
M("c10_stale_edb_cache", ["C10", "C09"], "server caches the index per sid in a module global and never refreshes it",
  ("frontend/server/services/service.py", "        edb_bytes = FileManager.read_encrypted_database(self.sid)\n        EDBClass = self.sse_module_loader.SSEEncryptedDatabase",
   "        edb_bytes = _EDB_CACHE.setdefault(self.sid[:2], FileManager.read_encrypted_database(self.sid))\n        EDBClass = self.sse_module_loader.SSEEncryptedDatabase"),
  ("frontend/server/services/service.py", "logger = getSSELogger(\"sse_server\")\n", "logger = getSSELogger(\"sse_server\")\n_EDB_CACHE = {}\n"))
M("c09_client_deletes_key", ["C09", "C11"], "client deletes the key instead of the local index after the upload acknowledgement",
  ("frontend/client/services/file_manager.py", "    edb_path = _PROGRAM_PATH.joinpath(sid).joinpath(\"edb\")\n    edb_path.unlink(missing_ok=True)",
   "    edb_path = _PROGRAM_PATH.joinpath(sid).joinpath(\"key\")\n    edb_path.unlink(missing_ok=True)"))
M("c09_result_truncated_on_reuse", ["C09"], "server drops the last identifier of results with more than 4 ids",
  ("frontend/server/services/service.py", "        result = self.sse_scheme.Search(self.edb, tk_object)\n", "        result = self.sse_scheme.Search(self.edb, tk_object)\n        if isinstance(result.result, list) and len(result.result) > 4:\n            result.result = result.result[:-1]\n"))
M("c11_key_guard_dropped", ["C11"], "client regenerates the key on a second generate-key",
  ("frontend/client/services/service.py", "        if ClientServiceState.is_key_created(self.get_current_service_state()):  # todo should allow re-create", "        if False:  # todo should allow re-create"))
M("c11_encrypt_guard_dropped", ["C11"], "client re-encrypts the database on a second encrypt-database",
  ("frontend/client/services/service.py", "        if ClientServiceState.is_db_encrypted(self.get_current_service_state()):  # todo should allow re-create", "        if False:  # todo should allow re-create"))
M("c11_key_flag_not_stored", ["C11"], "client does not persist the key-created flag",
  ("frontend/client/services/service.py", "        self.set_current_service_state(ClientServiceState.set_key_created(self.get_current_service_state(), True))\n        self._store_service_meta()",
   "        self.set_current_service_state(ClientServiceState.set_key_created(self.get_current_service_state(), True))"))
M("c11_upload_edb_without_config", ["C11"], "client uploads the index without checking that the config was uploaded",
  ("frontend/client/services/service.py", "        if not ClientServiceState.is_config_uploaded(self.get_current_service_state()):\n            reason = f\"The config of service {self.short_sid} has not been uploaded.\"\n            logger.error(reason)\n            raise ValueError(reason)\n        if not ClientServiceState.is_key_created(self.get_current_service_state()):\n            reason = f\"The key of service {self.short_sid} is not found.\"\n            logger.error(reason)\n            raise ValueError(reason)\n\n        self._load_sse_encrypted_database()",
   "        self._load_sse_encrypted_database()"))

# ---------------------------------------------------------------- C12 / C13
M("c12_no_wait_for_lock", ["C12"], "server serves a later connection without taking the per-service lock when it is free at arrival time only",
  ("frontend/server/services/services_manager.py", "        async with sid_lock:\n", "        if True:\n"))
M("c12_no_reload", ["C12"], "waiting connection keeps its stale snapshot (no reload when it becomes active)",
  ("frontend/server/services/services_manager.py", "            service.reload_persisted_state()\n", "            pass\n"))
M("c12_no_control_message", ["C12"], "waiting connection is not told to wait",
  ("frontend/server/services/services_manager.py", "            service.send_message(MsgType.CONTROL, reason.encode('utf8'))\n", "            pass\n"))
M("c12_lock_released_before_cleanup", ["C12"], "the per-service lock is released before the cleanup of the closed connection has run",
  ("frontend/server/services/services_manager.py", "            finally:\n                await clean_task\n", "            finally:\n                pass\n"))
M("c13_meta_in_place", ["C13"], "server writes service_meta in place again",
  ("frontend/server/services/file_manager.py", "    _write_file_atomically(service_dir_path.joinpath(\"service_meta\"), pickle.dumps(meta))",
   "    with open(service_dir_path.joinpath(\"service_meta\"), \"wb\") as f:\n        pickle.dump(meta, f)"))
M("c13_meta_before_config", ["C13"], "server writes service_meta before config.json",
  ("frontend/server/services/service.py", "        FileManager.write_service_config(self.sid, config)\n        self.config = config\n        self.service_meta[\"state\"] = SERVICE_STATE.CONFIG_UPLOADED_BUT_EDB_NOT_UPLOADED\n        FileManager.write_service_meta(self.sid, self.service_meta)",
   "        self.config = config\n        self.service_meta[\"state\"] = SERVICE_STATE.CONFIG_UPLOADED_BUT_EDB_NOT_UPLOADED\n        FileManager.write_service_meta(self.sid, self.service_meta)\n        FileManager.write_service_config(self.sid, config)"))
M("c13_client_key_flag_first", ["C13"], "client stores the key-created flag before writing the key",
  ("frontend/client/services/service.py", "        FileManager.write_key(self.sid, sse_key.serialize())\n        self.set_current_service_state(ClientServiceState.set_key_created(self.get_current_service_state(), True))\n        self._store_service_meta()",
   "        self.set_current_service_state(ClientServiceState.set_key_created(self.get_current_service_state(), True))\n        self._store_service_meta()\n        FileManager.write_key(self.sid, sse_key.serialize())"))
M("c13_server_exists_check_loose", ["C13"], "server treats any existing folder as a configured service again",
  ("frontend/server/services/file_manager.py", "    return _PROGRAM_PATH.joinpath(sid).exists() \\\n           and _PROGRAM_PATH.joinpath(sid).joinpath(\"config.json\").exists() \\\n           and _PROGRAM_PATH.joinpath(sid).joinpath(\"service_meta\").exists()",
   "    return _PROGRAM_PATH.joinpath(sid).exists()"))
M("c13_edb_flag_before_file", ["C13"], "server marks the service ready before the index file is written",
  ("frontend/server/services/service.py", "        FileManager.write_encrypted_database(self.sid, edb_bytes)\n        self.service_meta[\"state\"] = SERVICE_STATE.ALL_READY\n        FileManager.write_service_meta(self.sid, self.service_meta)",
   "        self.service_meta[\"state\"] = SERVICE_STATE.ALL_READY\n        FileManager.write_service_meta(self.sid, self.service_meta)\n        FileManager.write_encrypted_database(self.sid, edb_bytes)"))

#!/venv/bin/python
"""Regenerates /verif/MANIFEST.json from the table below (keeps it schema-valid at all times)."""
import json
import os

HERE = os.path.dirname(os.path.dirname(os.path.abspath(__file__)))
PROPS = [json.loads(l)["id"] for l in open(os.path.join(HERE, "properties.jsonl"))]

CHECKS = {
    "C18": dict(
        category="exploration", design="DESIGN.md §3 C18",
        technique="property-based testing against a list-of-bits reference model: exhaustive enumeration (<= 8 bits), "
                  "Hypothesis generation (lengths 0..300, boundary values), atheris coverage-guided stage in thorough",
        text="Every public value-level operation of Bitset and the halving helpers is compared (value and length) with an "
             "independent MSB-first list-of-bits model: exhaustively for all values of lengths 0..8 (unary) and all pairs of "
             "lengths 0..6 (binary), on the 2^k-1/2^k/2^k+1 family up to k=400, and on Hypothesis-generated operands up to 300 "
             "bits. Exhaustive below 9 bits, sampled above; appropriate because the property is a pure function law.",
        note="Trusts the harness's list-of-bits model and Python int arithmetic; negative indices, __setitem__, "
             "from_sequence and int right-operands are outside the stated property and not asserted."),
}

NOT_YET = "check not built yet (build in progress)"


def main():
    checks = []
    for pid in PROPS:
        if pid not in CHECKS:
            continue
        c = CHECKS[pid]
        checks.append({
            "property_id": pid,
            "quick_cmd": "/venv/bin/python check.py %s --tier quick" % pid,
            "thorough_cmd": "/venv/bin/python check.py %s --tier thorough" % pid,
            "evidence_file": "/verif/evidence/%s.json" % pid,
            "replay_cmd_template": "/venv/bin/python check.py %s --replay {path}" % pid,
            "engine": "ssepy-pbt",
            "level_claimed": {"category": c["category"], "text": c["text"], "design_ref": c["design"]},
            "level_note": c["note"],
            "technique": c["technique"],
        })
    m = {
        "version": 1,
        "setup_cmd": "sh /verif/setup.sh",
        "hooks": {
            "guard": "SSEPY_VERIF",
            "enable": "no source hooks exist: every interposition (entropy, asyncio.sleep in the services manager, server URI, "
                      "HOME, file-system fault injection) is installed from /verif into the check process or its children",
            "baseline_off_cmd": "cd /repo && /venv/bin/python -m pytest -ra -q -p no:cacheprovider --timeout=900 "
                                "--continue-on-collection-errors",
            "source_commits": [],
            "add_only": True,
        },
        "engines": [{"name": "ssepy-pbt", "path": "/verif/check.py",
                     "serves_properties": [c["property_id"] for c in checks],
                     "kind_free_text": "Hypothesis 6.168 generators + explicit oracles (reference models, round-trips, "
                                       "differential and metamorphic relations), exhaustive enumeration of small finite "
                                       "sub-spaces, atheris coverage-guided stages, 16-way sharding"}],
        "checks": checks,
        "not_applicable": [{"property_id": p, "reason": NOT_YET} for p in PROPS if p not in CHECKS],
        "notes": "Checks are pure functions of (/repo working tree, VERIF_SEED, tier). Exit 0 held / 1 VIOLATION / 2 harness "
                 "error. Known and fixed findings: /verif/known_findings.json.",
    }
    with open(os.path.join(HERE, "MANIFEST.json"), "w") as f:
        json.dump(m, f, indent=1)
        f.write("\n")
    import jsonschema  # noqa
    return m


if __name__ == "__main__":
    m = main()
    try:
        import jsonschema
        jsonschema.validate(m, json.load(open("/root/.vp/MANIFEST.schema.json")))
        print("manifest valid; %d checks" % len(m["checks"]))
    except ImportError:
        print("manifest written; %d checks (jsonschema not importable here)" % len(m["checks"]))

#!/venv/bin/python
"""Regenerates /verif/MANIFEST.json from the table below (keeps it schema-valid at all times)."""
import json
import os

HERE = os.path.dirname(os.path.dirname(os.path.abspath(__file__)))
PROPS = [json.loads(l)["id"] for l in open(os.path.join(HERE, "properties.jsonl"))]

CHECKS = {
    "C09": dict(
        category="exploration", design="DESIGN.md §3 C09",
        technique="property-based testing of whole workflows through the real client Service and the real server handler over a "
                  "loopback websocket; oracle = delivered result bytes deserialize to DB.get(w, empty)",
        text="Generated (scheme, config, JSON database with UTF-8 keywords and mixed-case hex ids, order of workflow prefixes, "
             "client re-creation bits at every step boundary, keyword sequence with absent/repeated keywords, per-search delivery "
             "style (wait=True callback / once-handler + non-blocking search), optional server restart: clean, hard (modules "
             "reloaded) or - one case in eight - the server is a real process SIGKILLed right after the upload acknowledgement "
             "or between searches while the client's connection is open) workflows run against the real frontend, also through "
             "frontend.client.commands; every delivered result must equal the posting "
             "list, hex/int views must reproduce the JSON identifiers and every step whose prerequisites hold must complete.",
        note="The cleanup pause is a gate owned by the driver (reconnects inside and after it); a clean restart is 'stop listening, "
             "fresh ServicesManager, listen again', the killed-process variant loses whatever the server had not written."),
    "C10": dict(
        category="exploration", design="DESIGN.md §3 C10",
        technique="model-based testing of raw protocol histories against a 3-state reference model (trace equality) over real "
                  "loopback websockets; exhaustive enumeration of all histories of depth <= 4 (quick) / <= 5 (thorough) over a "
                  "7-letter alphabet plus Hypothesis histories with foreign-sid / unknown-type messages, pipelined request pairs, "
                  "reconnects inside the cleanup pause, clean and hard restarts, a companion service, and survivable I/O errors "
                  "(ENOSPC/EIO) injected at every file-system mutation of a configuration or index upload (before-or-after oracle)",
        text="Histories of config(c1|c2), upload(e1|e2), search, foreign-sid, unknown-type messages, two requests pipelined on one "
             "connection, reconnects (also inside the server's cleanup pause), clean/hard restarts and a companion service sharing a "
             "40-character id prefix on one sid are executed against the real handler; init-echo states, ok/refused outcomes and result payloads must equal "
             "those of the forward-only write-once model, the stored config/index must be the accepted ones.",
        note="Refusal = ok:False reply or closure; control messages are skipped; connections are strictly consecutive; in a pipeline a "
             "reply may be lost with the closure that a later refused request causes (the state is then checked by the next init echo)."),
    "C11": dict(
        category="exploration", design="DESIGN.md §3 C11",
        technique="model-based testing of client operation sequences against a 5-flag reference model (accept/refuse, persisted "
                  "flags, file immutability on refusal, key immutability, final searches); exhaustive depth <= 4/5 over 6 operations",
        text="Every operation runs on a client Service freshly loaded from disk (a third of the cases: through the command functions of "
             "frontend.client.commands, outcome read from what they print) against a live in-process server; operations include "
             "create-service with an invalid / the stored / a missing configuration; acceptance must "
             "follow the documented prerequisite relation, persisted flags must equal the model, refused operations must leave all "
             "files byte-identical, the key file never changes, invalid configurations create no service, and once the index is "
             "uploaded every search returns DB[w].",
        note="Operations on a never-created sid are outside the property; refusal = any exception from the handler."),
    "C12": dict(
        category="exploration", design="DESIGN.md §3 C12",
        technique="schedule exploration with a harness-owned scheduler: stateless DFS enumeration of all interleavings of opens, "
                  "script steps, cleanup-delay releases, server-armed timeouts and a burst of background connections for small scripts over an in-memory transport with the server's exact "
                  "websocket surface, Hypothesis for larger scripts, history invariants as oracle, every violation re-executed "
                  "over real loopback sockets",
        text="The server's timing sources (asyncio.sleep and wait_for timeouts in the server modules) are a gate and a timer controller "
             "driven by the schedule, 130-300 connections of other services can open as one more event, and the loop is run to "
             "quiescence after each event, so interleavings are explored deterministically: all schedules of 2 connections "
             "(scripts <= 1 + selected <= 2 in quick, all <= 2 in thorough) and 3 connections (scripts <= 1). Invariants: no reply "
             "to a later connection while an earlier one is open; probe state >= every acknowledged state; the acknowledged "
             "config/index are the stored and searched ones.",
        note="Exhaustive for the listed script sets only; OS-level socket reordering and multi-process servers are out of reach."),
    "C13": dict(
        category="fault_enumeration", design="DESIGN.md §3 C13",
        technique="fault injection by real process kill (os._exit) at every enumerated file-system mutation of every persisting "
                  "handler, in child processes, followed by a scripted user recovery and an end-to-end search oracle",
        text="A dry run lists every mkdir / open-for-write / write / flush / close / unlink / replace of the server's config and index "
             "handlers and close_service and of each client command; the component is killed immediately before each mutation and "
             "with torn first/last writes, restarted on the same directory, the interrupted command is re-run and the workflow "
             "finished: the handshake must succeed with a state matching the files on disk and all searches must equal DB[w]. "
             "Also killed right after every open-for-write. Children have a TMPDIR on another file system, no CAP_DAC_OVERRIDE, own hash "
             "seeds; a sample runs under -O. Quick: PiBas, 1 database (about 150 crash scenarios); thorough: 3 schemes (PiBas with 2 databases), about 2 hours.",
        note="No fsync / power-loss reordering model, no disk-full; client and server use separate scratch HOMEs."),
    "C01": dict(
        category="exploration", design="DESIGN.md §3 C01",
        technique="property-based testing with a direct oracle (Search == DB[w]) over Hypothesis-generated (config, DB) cases per "
                  "scheme plus complete enumeration of all integer partitions of N <= 9 (quick) / <= 16 (thorough) as length profiles",
        text="For each of the nine schemes, configurations from the supported grid and databases built by construction (boundary "
             "length profiles: N=1, one list of 2^t postings, lists on block/level/case thresholds, structured keyword families, "
             "four identifier layouts) are encrypted under a seeded DRBG and every stored keyword is searched; the answer must "
             "equal the posting list (order included; set for DP17), token by token and as a batch (tokens generated first, searched in "
             "another order, one reused), and no call may raise. Eight schemes also get a keyword in 2^16-1 / 2^16 / 2^16+1 documents. "
             "All partitions of N <= 9 / 16 are "
             "enumerated as profiles, and the default configurations are exercised at 64/65/128 (thorough: 4096/4097) postings.",
        note="Database validity is the quantifier of C01; sizes are bounded to a few hundred postings per case (4097 in thorough)."),
    "C02": dict(
        category="exploration", design="DESIGN.md §3 C02",
        technique="property-based testing: absent-keyword queries (prefix, suffix, NUL-extended, doubled, bit-flipped, case-swapped, "
                  "max-length, top/bottom of the keyword space, numeric neighbours, random) against C01's generated indexes, incl. an earlier "
                  "index searched after the same scheme object encrypted another database, and two live indexes of one scheme object searched alternately; oracle = empty result and no exception",
        text="On the same generated (scheme, config, key, DB) cases as C01, up to ~20 valid keywords that are not in the database "
             "and are adversarially close to stored ones are searched, interleaved with present keywords; each must return an "
             "empty result of the scheme's result type without raising.",
        note="Absent keywords are valid keywords (non-empty, no leading NUL, within the length limit)."),
    "C03": dict(
        category="exploration", design="DESIGN.md §3 C03",
        technique="round-trip and differential property-based testing: serialize/deserialize equality, a harness-side 'server' built "
                  "only from the JSON config + bytes through the by-name loader (every fifth case: in ANOTHER PROCESS with its own hash seed), "
                  "key reload in a fresh scheme instance, posting lists around 2^16 documents",
        text="For generated cases with width-bearing fields moved off their defaults, key/token/EDB/result round-trip to equal "
             "objects; a server that holds only json(config), EDB bytes and token bytes returns DB.get(w, empty) after result "
             "serialization for present and absent keywords; a fresh scheme instance with the key reloaded from bytes regenerates "
             "byte-identical tokens.",
        note="Byte-identical re-serialization is not demanded (a pickled set may iterate differently); hostile bytes are out of scope."),
    "C04": dict(
        category="exploration", design="DESIGN.md §3 C04",
        technique="property-based testing with byte-level oracles: substring absence of high-entropy keywords/identifiers, pairwise "
                  "distinct 16-byte ciphertext blocks, disjoint blocks across two setups (same process, fresh interpreters, forked workers), "
                  "keyed labels/tokens",
        text="Database shapes are Hypothesis-generated (incl. one identifier under every keyword) and contents are DRBG output long "
             "enough that an accidental hit is < 1e-15; EDB and token bytes must not contain any keyword or (except SSE-2) "
             "identifier, all ciphertext blocks of one index are distinct, two setups of the same (key, DB) share no block (same process, "
             "fresh interpreters, forked workers, global random seeded identically before each), and "
             "labels/tokens under two keys share nothing.",
        note="Necessary conditions on bytes only; nothing about semantic security. SSE-2 identifiers are exempt by construction."),
    "C05": dict(
        category="exploration", design="DESIGN.md §3 C05",
        technique="metamorphic property-based testing over constructively generated PAIRS of databases with equal public size "
                  "parameter: shape(EDB1) == shape(EDB2), plus per-table length uniformity",
        text="Pairs of valid databases with equal pi_S (N, block counts, (blocks, pointer blocks), (|W|, A_len), ceil(log2 N)) but "
             "different keyword counts, list-length distributions, contents and keys are encrypted; per-container entry counts and "
             "multisets of key/value byte lengths must coincide and every padded table must have one key length and one value "
             "length. Thorough adds all partition pairs of N <= 10 for CT14/ANSS16/DP17.",
        note="Shape is computed from the unpickled containers; SSE-2 integer keys compared by type; DP17's last bucket may be shorter."),
    "C06": dict(
        category="exploration", design="DESIGN.md §3 C06",
        technique="metamorphic property-based testing (keyword-order permutation under an identically re-seeded DRBG: sorted tables, "
                  "equal label sequences) and recording-list instrumentation of array reads across two setups with computed "
                  "false-alarm bounds < 1e-15, incl. a setup in a fresh interpreter and databases with more than 2^16 table entries",
        text="(i) For the four CJJ14 schemes, CT14 and ANSS16 the keys of every table of the serialized index are ascending and the "
             "(real) label sequence is invariant under permuting the input order. (ii) For PiPtr, Pi2Lev, SSE-1 and DP17 the slots "
             "read by Search differ between two setups (also in another process, in workers forked with a shared scheme object, and after "
             "identical other use of the library), are not the sequential allocation, and DP17 buckets are not in un-shuffled "
             "arrangement - each asserted only when correct code would fail with probability < 1e-15 for that case.",
        note="No statistical uniformity test; a weak but non-constant placement is out of reach."),
    "C07": dict(
        category="exploration", design="DESIGN.md §3 C07",
        technique="model-based testing of generated search histories with history invariants (inputs deep-equal before/after, EDB "
                  "bytes identical after every step, answers stable)",
        text="Generated histories of present/absent/repeated/fresh-token/reused-token searches (<= 15 quick, <= 40 thorough) run "
             "against one index per case; DB, config dict, module DEFAULT_CONFIG, key bytes and token bytes must be unchanged, "
             "EDB.serialize() byte-identical after every step, and every answer equal to DB.get(w, empty) and to its first answer - also "
             "when the caller modifies the result lists it is given and across up to 32 index generations built by one scheme object.",
        note="Explicit mutators (scan_database_and_update_config_dict, the client's salt) are outside the property."),
    "C08": dict(
        category="exploration", design="DESIGN.md §3 C08",
        technique="property-based testing over a configuration edit grid with a disjunctive oracle (raises somewhere OR all searches "
                  "correct, each token used twice, one case in six also searched by another process); complete sweeps of single-key "
                  "deletions and single-field edits",
        text="Base configurations receive 1-3 edits from the value grids (valid, boundary, out-of-range, wrong-typed, wrong-kind "
             "names); a database valid for the edited configuration is encrypted and searched. A completed run with any wrong "
             "result is a violation; a deleted key must be refused at build time or be unneeded. Every single-field edit and "
             "every single-key deletion is enumerated completely in both tiers.",
        note="When identifier size / keyword limit / capacities are not positive integers no valid database exists (vacuous, "
             "counted); label/key lengths are >= 8 or outright invalid; hangs are cut at 30 s and counted inconclusive."),
    "C18": dict(
        category="exploration", design="DESIGN.md §3 C18",
        technique="property-based testing against a list-of-bits reference model: exhaustive enumeration (<= 8 bits), "
                  "Hypothesis generation (lengths 0..300, boundary values, operation chains, several live iterators), atheris "
                  "coverage-guided stage in thorough",
        text="Every public value-level operation of Bitset and the halving helpers is compared (value and length) with an "
             "independent MSB-first list-of-bits model: exhaustively for all values of lengths 0..8 (unary) and all pairs of "
             "lengths 0..6 (binary), on the 2^k-1/2^k/2^k+1 family up to k=400, and on Hypothesis-generated operands up to 300 "
             "bits. Exhaustive below 9 bits, sampled above; appropriate because the property is a pure function law.",
        note="Trusts the harness's list-of-bits model and Python int arithmetic; negative indices, __setitem__, "
             "from_sequence and int right-operands are outside the stated property and not asserted."),
    "C14": dict(
        category="exploration", design="DESIGN.md §3 C14",
        technique="property-based testing: round-trip + length law + freshness + independent AES-CBC/PKCS7 reference; every "
                  "message length 0..80 enumerated, Hypothesis for random lengths and contract breaches, multi-key call histories on one "
                  "cipher object (all orders to depth 3-4)",
        text="Every message length 0..80 for the three key lengths (several keys each) plus Hypothesis-generated keys, messages "
             "up to 5000 bytes and contract-breach cases are run through Encrypt/Decrypt under a seeded non-repeating DRBG; "
             "round-trip, the length law, IV/ciphertext freshness, wrong-key behaviour and agreement with an independent "
             "decryption are asserted, and every declared-length breach must raise ValueError.",
        note="Trusts the cryptography package's AES/CBC/PKCS7 as reference; freshness is a necessary-condition check on bytes."),
    "C15": dict(
        category="exploration", design="DESIGN.md §3 C15",
        technique="exhaustive bijection/inverse enumeration for n in 2..12 per sampled key (inputs obtained by eight Bitset construction "
                  "routes), Hypothesis for n up to 2100 bits, "
                  "differential test of the byte PRPs against an independent Feistel, atheris stage in thorough",
        text="For each sampled key (6 quick / 16 thorough, key lengths 0..64) all 8188 points of n=2..12 are enumerated: image "
             "equals the domain, both inverse directions hold, BitwiseFPEPRP agrees with the cipher. Random n up to 2100 (odd, "
             "around multiples of 160) check length preservation and inverses; byte Luby-Rackoff PRPs are compared with an "
             "independent 3-round Feistel + inverse network, all 65536 two-byte messages exhaustively per sampled key; wrong "
             "lengths must raise ValueError. Exhaustive for the sampled keys only.",
        note="Trusts hmac/hashlib as base of the reference Feistel; keys are sampled, not enumerated."),
    "C16": dict(
        category="exploration", design="DESIGN.md §3 C16",
        technique="differential property-based testing against an independent RFC 5246 P_hash / counter-mode / XOF reference; "
                  "all output lengths 1..200 enumerated per digest, all call histories to depth 4-5 on one PRF object with declared lengths, "
                  "Hypothesis beyond, atheris stage in thorough",
        text="HmacPRF over sha1/sha256/sha512/md5 and the hash wrapper over those plus shake_128/256 are compared byte for byte "
             "with an independent reference for every output length 1..200 on short inputs and for Hypothesis-generated "
             "keys (0..80), messages (0..200) and lengths up to 2000; exact length, determinism, pairwise distinctness on "
             "sampled sets and ValueError on contract breaches and unknown names are asserted.",
        note="Trusts hmac/hashlib; digest names are the spellings the schemes' configurations use."),
    "C17": dict(
        category="exploration", design="DESIGN.md §3 C17",
        technique="round-trip property-based testing (Hypothesis + explicit (id size x capacity) grid sweep), histories of interleaved / "
                  "abandoned partition generators against an independent block computation, atheris stage in thorough",
        text="partition/parse of identifier blocks is round-tripped through both parsers over an (id size x capacity) grid "
             "(8x8 quick, complete 40x70 thorough) with list lengths around multiples of the capacity and 4 block sizes, and on "
             "Hypothesis-generated lists up to 300 ids incl. ids with leading/trailing zero bytes; split/join, int<->bytes at any "
             "width, add_leading_zeros, xor laws, hex/int/utf8 views, JSON database conversion and chunks are checked by "
             "round-trip / model; mismatching inputs must raise ValueError.",
        note="Identifiers are non-zero and of exactly the stated size; length vectors have entries >= 1."),
    "C19": dict(
        category="exploration", design="DESIGN.md §3 C19",
        technique="model-based testing of generated operation histories (Hypothesis-generated op lists interpreted against a "
                  "list-of-padded-items reference model, directory invariant after every step)",
        text="6400 (quick) / 160000 (thorough) generated histories of up to 25 / 40 operations over arrays with 1..40 items, item "
             "size 1..9 and every chunk size 1..len+2 are executed against SPFLBArray and a list model; every observation, a "
             "full read after every failing operation, an iterator kept alive across writes, index-protocol objects, endless value streams, use-after-close, reopen durability and the set of files in the array's "
             "directory are compared after each step.",
        note="A refusal is any raised exception; scratch directories are private to a case."),
    "C20": dict(
        category="exploration", design="DESIGN.md §3 C20",
        technique="model-based testing of generated operation histories against a dict reference model",
        text="Generated histories (up to 30 / 50 steps, 6-key universe) over PickledDict (full life cycle incl. close/open, "
             "use-after-close, create-over-existing, open-missing, from_dict from dicts and dict subclasses and its independence, bytearray values changed in place before a close) and DBMDict (one open session, "
             "use-after-close at the end) are compared with a plain dict after every step.",
        note="Only dbm.dumb exists here, so DBMDict reopen/path errors are outside the stated scope; bytearray aliasing is "
             "not asserted."),
}

NOT_YET = "check not built yet (build in progress)"


def main():
    checks = []
    for pid in PROPS:
        if pid not in CHECKS:
            continue
        c = CHECKS[pid]
        checks.append({
            "property_id": pid,
            "quick_cmd": "/venv/bin/python check.py %s --tier quick" % pid,
            "thorough_cmd": "/venv/bin/python check.py %s --tier thorough" % pid,
            "evidence_file": "/verif/evidence/%s.json" % pid,
            "replay_cmd_template": "/venv/bin/python check.py %s --replay {path}" % pid,
            "engine": "ssepy-pbt",
            "level_claimed": {"category": c["category"], "text": c["text"], "design_ref": c["design"]},
            "level_note": c["note"],
            "technique": c["technique"],
        })
    m = {
        "version": 1,
        "setup_cmd": "sh /verif/setup.sh",
        "hooks": {
            "guard": "SSEPY_VERIF",
            "enable": "no source hooks exist: every interposition (entropy, asyncio.sleep and wait_for timeouts in the server modules, server URI, "
                      "HOME, file-system fault injection) is installed from /verif into the check process or its children",
            "baseline_off_cmd": "cd /repo && /venv/bin/python -m pytest -ra -q -p no:cacheprovider --timeout=900 "
                                "--continue-on-collection-errors",
            "source_commits": [],
            "add_only": True,
        },
        "engines": [{"name": "ssepy-pbt", "path": "/verif/check.py",
                     "serves_properties": [c["property_id"] for c in checks],
                     "kind_free_text": "Hypothesis 6.168 generators + explicit oracles (reference models, round-trips, "
                                       "differential and metamorphic relations), exhaustive enumeration of small finite "
                                       "sub-spaces, atheris coverage-guided stages, 16-way sharding; every property's generated "
                                       "search is repeated at 30 % in child interpreters started with -O"}],
        "checks": checks,
        "not_applicable": [{"property_id": p, "reason": NOT_YET} for p in PROPS if p not in CHECKS],
        "notes": "Checks are pure functions of (/repo working tree, VERIF_SEED, tier). Exit 0 held / 1 VIOLATION / 2 harness "
                 "error. Known and fixed findings: /verif/known_findings.json (16 fixed, none open). Sensitivity: 111 mutants "
                 "(mutants/), 200 independently written breakages in five rounds (seeded/, DESIGN.md 8.5-8.10).",
    }
    with open(os.path.join(HERE, "MANIFEST.json"), "w") as f:
        json.dump(m, f, indent=1)
        f.write("\n")
    return m


if __name__ == "__main__":
    m = main()
    try:
        import jsonschema
        jsonschema.validate(m, json.load(open("/root/.vp/MANIFEST.schema.json")))
        print("manifest valid; %d checks" % len(m["checks"]))
    except ImportError:
        print("manifest written; %d checks (jsonschema not importable here)" % len(m["checks"]))

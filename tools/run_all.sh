#!/bin/sh
# run every check at one tier and seed; one summary line per check (rc, seconds, VIOLATION lines); outputs under $OUT
# usage: tools/run_all.sh [quick|thorough] [seed] [outdir]
cd "$(dirname "$0")/.."
TIER=${1:-quick}; SEED=${2:-1}; OUT=${3:-out/run_all}
mkdir -p "$OUT"
for p in C01 C02 C03 C04 C05 C06 C07 C08 C09 C10 C11 C12 C13 C14 C15 C16 C17 C18 C19 C20; do
  t0=$(date +%s)
  VERIF_SEED=$SEED VERIF_EVIDENCE_DIR="$OUT/ev" VERIF_OUT_DIR="$OUT/o" ./check.py $p --tier $TIER > "$OUT/${p}_${TIER}_${SEED}.out" 2>&1
  rc=$?
  echo "tier=$TIER seed=$SEED $p rc=$rc $(( $(date +%s) - t0 ))s violations=$(grep -c '^VIOLATION' "$OUT/${p}_${TIER}_${SEED}.out")" | tee -a "$OUT/summary.log"
done

"""Scheme descriptors, valid-configuration grids, database generators and the generic EDB walker (C01-C08).

Descriptors are declarative and hand-written from the code's own cross-field contracts (DESIGN.md section 2.1):
  * a PRF output that feeds the next PRF/SKE as key must have that key length,
  * SKE keys are 16/24/32 bytes,
  * SSE-1's array size is a power of two >= 4 and N <= s-1,
  * Pi2Lev's two index widths agree and are >= 1, b <= B*b', every list shorter than B*B'*b',
  * ANSS16 uses one SKE for both key spaces (k == k').
Everything outside this grid belongs to C08.
"""
import hashlib
import json
import math
import pickle

from hypothesis import strategies as st

from vlib.drbg import entropy

SCHEMES = ["CGKO06.SSE1", "CGKO06.SSE2", "CJJ14.PiBas", "CJJ14.PiPack", "CJJ14.PiPtr", "CJJ14.Pi2Lev",
           "CT14.Pi", "ANSS16.Scheme3", "DP17.Pi"]

SKE_ALIASES = ["AES-CBC", "aes-cbc", "AES_CBC", "aescbc"]
PRF_ALIASES = ["HmacPRF", "hmacprf", "hmac-prf", "HMAC_PRF"]
FPE_ALIASES = ["BitwiseFPEPRP", "bitwise_fpe_prp", "bitwise-fpe-prp"]


def B(h):
    return bytes.fromhex(h)


def load(scheme):
    import schemes
    return schemes.load_sse_module(scheme)


def default_config(scheme):
    import copy
    return copy.deepcopy(load(scheme).SSEConfig.get_default_config())


# ---------------------------------------------------------------------------------------------------------
# database specs
# ---------------------------------------------------------------------------------------------------------
HEADER_MAGICS = [b"\x93\x94Curtomola2006SSE2", b"\x93\x94Curtomola2006SSE1", b"\x93\x94Cash2014PiBas", b"\x93\x94Cash2014PiPack", b"\x93\x94Cash2014PiPtr",
                 b"\x93\x94Cash2014Pi2Lev", b"\x93\x94Cash2014LocalityPi", b"\x93\x94Asharov2014Scheme3", b"\x93\x94Demertzis2017LocalityPi", b"\x93\x94"]


def _enc_id(v, size, mode):
    return v.to_bytes(size, "big" if mode != "le" else "little")


def build_db(spec):
    """db spec -> ordered dict {keyword bytes: [identifier bytes]} (deterministic)."""
    size = spec["id_size"]
    M = 256 ** size - 1  # number of non-zero identifiers
    mode = spec.get("id_mode", "be")
    db = {}
    offset = spec.get("id_seed", 0)
    for j, (kw, n) in enumerate(zip(spec["kws"], spec["lens"])):
        if n > M:
            raise ValueError("list longer than the identifier space")
        if mode in ("be", "le"):
            ids = [_enc_id((offset + p) % M + 1, size, mode) for p in range(n)]
            offset += n
        elif mode == "pool":  # identifiers shared between keywords: every list starts near the same offset
            start = spec.get("id_seed", 0) + (j % max(1, spec.get("pool_shift", 1)))
            ids = [_enc_id((start + p) % M + 1, size, "be") for p in range(n)]
        elif mode == "rand":
            ids, seen, ctr = [], set(), 0
            while len(ids) < n:
                h = hashlib.sha256(b"id/%d/%d/%d" % (spec.get("id_seed", 0), j, ctr)).digest()
                while len(h) < size:
                    h += hashlib.sha256(h).digest()
                cand = h[:size]
                ctr += 1
                if any(cand) and cand not in seen:
                    seen.add(cand)
                    ids.append(cand)
        elif mode == "special":
            # identifiers whose CONTENT has structure: all 0xFF, trailing / embedded / leading zero bytes, bytes that look like padding,
            # separators or pickle framing, high bit patterns; then counters in the upper byte (trailing zeros) to fill up
            ids, seen = [], set()
            pats = [b"\xff" * size, b"\x01" + b"\x00" * (size - 1), b"\x00" * (size - 1) + b"\x01", b"\x80" + b"\x00" * (size - 1),
                    (b"\x80\x04\x95" * size)[:size], (b".\x94\x8c" * size)[:size], bytes([size % 256 or 1]) * size, b"\x10" * size,
                    (b"\x00\xff" * size)[:size], (b"\xff\x00" * size)[:size], (b"\n\r\t " * size)[:size], (b"\xef\xbb\xbf" * size)[:size],
                    b"\x7f" * size, (b"\x00\x00\x01\x00" * size)[:size]]
            # the library's own format magics (SSE-2 keeps identifiers in the clear inside its serialized index)
            magic_pats = [(m + bytes([7]) * size)[:size] for m in HEADER_MAGICS if len(m) <= size]
            magic_pats += [(bytes([9]) * size + m)[-size:] for m in HEADER_MAGICS[:3] if len(m) < size]
            rot = (spec.get("id_seed", 0) + 3 * j) % len(pats)
            ordered = pats[rot:] + pats[:rot]
            if magic_pats:
                mrot = (spec.get("id_seed", 0) // 2 + 2 * j) % len(magic_pats)
                mord = magic_pats[mrot:] + magic_pats[:mrot]
                # identifiers long enough to hold a format magic: with an even seed every list starts with two of those
                ordered = (mord[:2] + ordered + mord[2:]) if spec.get("id_seed", 0) % 2 == 0 else (ordered + mord)
            for cand in ordered:
                if len(ids) < n and any(cand) and cand not in seen:
                    seen.add(cand)
                    ids.append(cand)
            ctr = spec.get("id_seed", 0) + 17 * j
            while len(ids) < n:
                ctr += 1
                cand = _enc_id(ctr % M + 1, size, "le")
                if cand not in seen:
                    seen.add(cand)
                    ids.append(cand)
        else:
            raise ValueError(mode)
        db[B(kw)] = ids
    if spec.get("alias") and len(db) >= 2:
        # the caller files ONE list object under two keywords (and, with alias_reversed, the same identifiers in reverse order
        # under a third): equal posting lists are valid, and so is sharing the object
        ks = list(db)
        a, b_ = spec["alias"][0] % len(ks), spec["alias"][1] % len(ks)
        if a != b_:
            db[ks[a]] = db[ks[b_]]
    return db


def db_total(spec):
    return sum(spec["lens"])


def distinct_ids(db):
    s = set()
    for v in db.values():
        s.update(v)
    return len(s)


# ---------------------------------------------------------------------------------------------------------
# keyword strategies
# ---------------------------------------------------------------------------------------------------------
def _valid_kw(b, limit):
    return len(b) >= 1 and b[0] != 0 and len(b) <= limit


@st.composite
def st_keywords(draw, count, limit):
    """`count` distinct valid keywords (non-empty, no leading NUL, <= limit bytes), with structured families."""
    limit = max(1, limit)
    out = []
    seen = set()

    def add(b):
        if _valid_kw(b, limit) and b not in seen and len(out) < count:
            seen.add(b)
            out.append(b)

    base = draw(st.binary(min_size=1, max_size=min(limit, 12)))
    if base[0] == 0:
        base = b"\x01" + base[1:]
    add(base)
    fam = draw(st.sampled_from(["none", "none", "prefix", "suffix", "bitflip", "trailing_nul", "maxlen", "ascii", "framing", "utf8", "long"]))
    if fam == "prefix":
        add(base + b"x")
        add(base[:-1])
        add(base + base)
    elif fam == "suffix":
        add(b"x" + base)
        add(base[1:])
    elif fam == "bitflip":
        add(bytes([base[0] ^ 0x40]) + base[1:])
        add(base[:-1] + bytes([base[-1] ^ 1]))
    elif fam == "trailing_nul":
        add(base + b"\x00")
        add(base + b"\x00\x00")
    elif fam == "maxlen":
        add((base * (limit // len(base) + 1))[:limit])
        add(b"\xff" * limit)
    elif fam == "ascii":
        add(b"keyword")
        add(b"Keyword")
        add(b"keywor")
    elif fam == "framing":
        # bytes that look like separators, padding or serialization framing
        for b in (b"\x80\x04\x95", b".", b"\x10" * min(limit, 16), b"a\x00b", b"a\x00", b"\xff", b"\xff\xff", b"\x01", b"\x01\x00",
                  b"1", b"2", b"\x01\x01", b"a|b", b"a,b", b"[]", b"\xef\xbb\xbfkw"):
            add(b[:limit])
        for m in HEADER_MAGICS:
            add(m[:limit])
    elif fam == "long":
        # longer than one block of the hash functions behind the PRFs (64 bytes), and exactly at / around it
        for n in (65, 64, 63, 100, 128):
            if n <= limit:
                add((base * (n // len(base) + 1))[:n])
    elif fam == "utf8":
        for s in ("\u00e4", "\u00e4\u00df", "\u6f22\u5b57", "\U0001f642", "a\u0308", "\u00c4", "\ufeffkw", "kw\u200b"):
            add(s.encode("utf-8")[:limit])
    tries = 0
    while len(out) < count and tries < 200:
        tries += 1
        b = draw(st.binary(min_size=1, max_size=limit))
        if b[0] == 0:
            b = bytes([1 + (len(out) % 255)]) + b[1:]
        add(b)
    i = 0
    while len(out) < count:  # deterministic fill, never reached in practice
        i += 1
        add(i.to_bytes(max(1, min(limit, 4)), "big").lstrip(b"\x00") or b"\x01")
    return out


def grown_db(desc, cfg, db):
    """a valid database for the SAME finalized configuration with more than twice the postings (existing lists repeated under
    new keywords), or None when the configuration's capacities do not allow it"""
    if desc.name == "CGKO06.SSE2" or not db:
        return None
    limit = desc.kw_limit(cfg)
    out = {w: list(v) for w, v in db.items()}
    lists = list(db.values())
    N = sum(len(v) for v in lists)
    i = 0
    while sum(len(v) for v in out.values()) < 2 * N + 1 and i < 200:
        name = (b"g%d" % i)[:limit]
        i += 1
        if name and name not in out:
            out[name] = list(lists[i % len(lists)])
    lens = [len(v) for v in out.values()]
    if sum(lens) < 2 * N + 1 or sum(lens) > desc.max_total(cfg):
        return None
    if desc.name == "CGKO06.SSE1" and (sum(lens) > cfg["param_s"] - 1 or len(out) > cfg["param_dictionary_size"]):
        return None
    if isinstance(desc, Pi2Lev) and not desc.lens_ok(cfg, lens):
        return None
    return out


def _alias_ok(desc, cfg, lens, i, j):
    """filing list j under keyword i as well keeps the database inside the configuration's capacities"""
    new = list(lens)
    new[i] = new[j]
    if sum(new) > max(sum(lens), 1) and sum(new) > desc.max_total(cfg):
        return False
    if desc.name == "CGKO06.SSE1" and sum(new) > cfg["param_s"] - 1:
        return False
    if isinstance(desc, Pi2Lev) and not desc.lens_ok(cfg, new):
        return False
    return True


def absent_keywords(db_kws, limit, extra):
    """Valid keywords not in the DB that are adversarially close to stored ones, plus caller-supplied random ones."""
    out = []
    seen = set(db_kws)

    def add(b, tag, unbounded=False):
        if _valid_kw(b, max(limit, len(b)) if unbounded else limit) and b not in seen:
            seen.add(b)
            out.append((b, tag))

    for w in db_kws[:4]:
        add(w[:-1], "prefix")
        add(w[1:], "suffix")
        add(w + b"\x00", "append_nul")
        add(w + w, "doubled")
        add(w + b"x", "extended")
        add(bytes([w[0] ^ 1]) + w[1:], "bitflip_first")
        add(w[:-1] + bytes([w[-1] ^ 0x80]), "bitflip_last")
        add(w.swapcase(), "swapcase")
    for w in db_kws[:2]:
        # a stored keyword next to something that looks like the counters / domain separators schemes put around keywords
        for sfx in (b"\x01", b"\x02", b"\x00\x01", b"\x00\x00\x00\x01", b"1"):
            add(w + sfx, "counter_suffix")
        for pfx in (b"\x01", b"\x02", b"\x03", b"1"):
            add(pfx + w, "separator_prefix")
        if len(w) > 1 and w[0] in (1, 2, 3, 0x31, 0x32):
            add(w[1:], "separator_prefix_removed")
    add(b"\xff" * limit if limit <= 64 else b"\xff" * 40, "maxlen")
    if limit >= 100:
        # schemes without a keyword-length limit: keywords around 2**16 bytes (where a 2-byte length field would end)
        for n in (65535, 65536, 70001):
            add((b"long-keyword-" * (n // 13 + 1))[:n], "very_long_keyword", unbounded=True)
    if limit <= 64:
        # the top of the keyword space (maximum length, value 2^(8L) - 1 - s for small s): where code that needs "unused" inputs
        # for padding entries takes them from
        n = len(db_kws)
        for s in (1, n, n + 1, n + 2):
            add(((1 << (8 * limit)) - 1 - s).to_bytes(limit, "big"), "top_of_keyword_space")
        add(b"\x01" + b"\x00" * (limit - 1), "bottom_of_max_length")
    for w in sorted(db_kws, key=len, reverse=True)[:2]:
        # digests of a stored keyword (what a PRF that pre-hashes long inputs would really be keyed with)
        for name in ("sha1", "sha256", "md5"):
            d = hashlib.new(name, w).digest()
            add(d if d[0] else b"\x01" + d[1:], "digest_of_stored_keyword")
    for w in db_kws[:2]:
        v = int.from_bytes(w, "big")
        for d in (1, -1):
            if 0 < v + d < (1 << (8 * len(w))):
                add((v + d).to_bytes(len(w), "big"), "numeric_neighbour")
    for b in extra:
        add(b, "random")
    return out


# ---------------------------------------------------------------------------------------------------------
# per-scheme descriptors
# ---------------------------------------------------------------------------------------------------------
class Desc:
    name = ""
    result_is_set = False
    kw_limit_default = 100   # no limit in the code; longer than one hash block (64 bytes) matters for PRF-keyed labels

    def st_config(self, draw):  # -> config dict in the valid grid
        raise NotImplementedError

    def kw_limit(self, cfg):
        return self.kw_limit_default

    def id_size(self, cfg, draw=None):
        return cfg["param_identifier_size"]

    def max_total(self, cfg):
        return 400

    def max_list(self, cfg):
        return 400

    def thresholds(self, cfg):
        return [1, 2, 3, 4, 5, 7, 8, 9, 15, 16, 17, 31, 32, 33, 63, 64, 65]

    def finalize(self, cfg, db):  # config fields that depend on the DB (SSE-2's param_n)
        return cfg

    def pi(self, cfg, db):  # the public size parameter of C05
        raise NotImplementedError

    def is_default(self, cfg):
        d = default_config(self.name)
        return all(cfg.get(k) == v for k, v in d.items() if k not in ("param_n",))

    def boundary_classes(self, cfg, lens):
        """labels of the boundary shapes a length profile hits (drives C01's non-triviality rule)"""
        N = sum(lens)
        out = []
        if N == 1:
            out.append("N=1")
        if N & (N - 1) == 0:
            out.append("N=2^t")
            if len(lens) == 1:
                out.append("single_list_N=2^t")
        if len(lens) == 1:
            out.append("single_keyword")
        th = set(self.thresholds(cfg))
        if any(n in th for n in lens) and N > 1:
            out.append("list_on_threshold")
        return out


def _st_idsz(draw, common):
    """identifier size: the usual sizes, or any size 1..33 (the code imposes no grid; sizes such as 7 or 15 make record lengths
    land on cipher-block multiples)"""
    if draw(st.booleans()):
        return draw(st.sampled_from(common))
    return draw(st.integers(1, 33))


class SSE1(Desc):
    name = "CGKO06.SSE1"

    def st_config(self, draw):
        c = default_config(self.name)
        if draw(st.integers(0, 9)) == 0:
            c["param_s"] = draw(st.sampled_from([2 ** 16, 2 ** 12]))
            c["param_dictionary_size"] = draw(st.sampled_from([2 ** 16, 64, 256]))
            return c
        c["param_k"] = draw(st.sampled_from([16, 24, 32]))
        c["param_l"] = draw(st.sampled_from([8, 16, 32, 32, 48, 64]))
        c["param_s"] = draw(st.sampled_from([4, 8, 16, 32, 64, 128, 256, 512, 1024]))
        c["param_dictionary_size"] = draw(st.sampled_from([0, 3, 64, 300]))  # 0 / 3 -> |W| / |W|+3 in finalize
        c["param_identifier_size"] = _st_idsz(draw, [1, 4, 8, 16, 20])
        if draw(st.integers(0, 3)) == 0:
            # a list node (identifier + next key + next address) that fills whole cipher blocks exactly
            addr = ((c["param_s"] - 1).bit_length() + 7) // 8
            c["param_identifier_size"] = (-(c["param_k"] + addr)) % 16 or 16
        c["prf_f"] = draw(st.sampled_from(PRF_ALIASES))
        c["prp_pi"] = draw(st.sampled_from(FPE_ALIASES))
        c["prp_psi"] = draw(st.sampled_from(FPE_ALIASES))
        c["ske1"] = draw(st.sampled_from(SKE_ALIASES))
        c["ske2"] = draw(st.sampled_from(SKE_ALIASES))
        return c

    def kw_limit(self, cfg):
        return cfg["param_l"]

    def max_total(self, cfg):
        return min(cfg["param_s"] - 1, 300)

    def max_list(self, cfg):
        return self.max_total(cfg)

    def thresholds(self, cfg):
        s = cfg["param_s"]
        return [1, 2, 3, s - 1, s - 2, s // 2, s // 2 - 1, s // 2 + 1]

    def finalize(self, cfg, db):
        c = dict(cfg)
        if c["param_dictionary_size"] in (0, 3):
            c["param_dictionary_size"] = len(db) + c["param_dictionary_size"]
        c["param_dictionary_size"] = max(c["param_dictionary_size"], len(db))
        return c

    def pi(self, cfg, db):
        return ()

    def boundary_classes(self, cfg, lens):
        out = Desc.boundary_classes(self, cfg, lens)
        if sum(lens) == cfg["param_s"] - 1:
            out.append("array_full")
        return out


class SSE2(Desc):
    name = "CGKO06.SSE2"

    def st_config(self, draw):
        c = default_config(self.name)
        c["param_k"] = draw(st.sampled_from([16, 24, 32]))
        c["param_l"] = draw(st.sampled_from([8, 16, 32, 32, 48, 64]))
        c["param_max_file_size"] = draw(st.sampled_from([16, 300, 2 ** 20]))
        c["param_identifier_size"] = _st_idsz(draw, [1, 4, 8, 16])
        c["param_n"] = -draw(st.sampled_from([0, 0, 1, 5]))  # finalize: distinct ids + slack
        c["prp_pi"] = draw(st.sampled_from(FPE_ALIASES))
        c["ske"] = draw(st.sampled_from(SKE_ALIASES))
        return c

    def kw_limit(self, cfg):
        return cfg["param_l"]

    def max_total(self, cfg):
        return 60  # token generation costs param_n PRP calls per keyword

    def max_list(self, cfg):
        return 40

    def finalize(self, cfg, db):
        c = dict(cfg)
        slack = -c["param_n"] if c["param_n"] <= 0 else 0
        c["param_n"] = distinct_ids(db) + slack
        return c

    def pi(self, cfg, db):
        return sum(len(v) for v in db.values())


class PiBas(Desc):
    name = "CJJ14.PiBas"

    def st_config(self, draw):
        c = default_config(self.name)
        lam = draw(st.sampled_from([16, 24, 32]))
        c["param_lambda"] = lam
        c["prf_f_output_length"] = lam
        c["prf_f"] = draw(st.sampled_from(PRF_ALIASES))
        c["ske"] = draw(st.sampled_from(SKE_ALIASES))
        c["_id_size"] = _st_idsz(draw, [1, 2, 4, 8, 13, 16, 20])
        return c

    def id_size(self, cfg, draw=None):
        return cfg.get("_id_size", 8)

    def pi(self, cfg, db):
        return sum(len(v) for v in db.values())


class PiPack(PiBas):
    name = "CJJ14.PiPack"

    def st_config(self, draw):
        c = default_config(self.name)
        if draw(st.integers(0, 9)) == 0:
            return c
        lam = draw(st.sampled_from([16, 24, 32]))
        c["param_lambda"] = lam
        c["prf_f_output_length"] = lam
        c["param_B"] = draw(st.sampled_from([1, 2, 3, 4, 8, 64]))
        c["param_identifier_size"] = _st_idsz(draw, [1, 2, 4, 8, 16])
        c["prf_f"] = draw(st.sampled_from(PRF_ALIASES))
        c["ske"] = draw(st.sampled_from(SKE_ALIASES))
        return c

    def id_size(self, cfg, draw=None):
        return cfg["param_identifier_size"]

    def thresholds(self, cfg):
        Bk = cfg["param_B"]
        return sorted({v for c in (1, 2, 3) for v in (c * Bk - 1, c * Bk, c * Bk + 1) if v >= 1})

    def pi(self, cfg, db):
        return sum(-(-len(v) // cfg["param_B"]) for v in db.values())


class PiPtr(PiPack):
    name = "CJJ14.PiPtr"

    def st_config(self, draw):
        c = default_config(self.name)
        if draw(st.integers(0, 9)) == 0:
            return c
        lam = draw(st.sampled_from([16, 24, 32]))
        c["param_lambda"] = lam
        c["prf_f_output_length"] = lam
        c["param_B"] = draw(st.sampled_from([1, 2, 3, 4, 8, 64]))
        c["param_b"] = draw(st.sampled_from([1, 2, 3, 8, 64]))
        c["param_identifier_size"] = _st_idsz(draw, [1, 2, 4, 8, 16])
        c["prf_f"] = draw(st.sampled_from(PRF_ALIASES))
        c["ske"] = draw(st.sampled_from(SKE_ALIASES))
        return c

    def thresholds(self, cfg):
        Bk, b = cfg["param_B"], cfg["param_b"]
        s = {v for c in (1, 2, 3) for v in (c * Bk - 1, c * Bk, c * Bk + 1)}
        s |= {Bk * b - 1, Bk * b, Bk * b + 1, 2 * Bk * b, 2 * Bk * b + 1}
        return sorted(v for v in s if v >= 1)

    def pi(self, cfg, db):
        blocks = [-(-len(v) // cfg["param_B"]) for v in db.values()]
        return (sum(blocks), sum(-(-x // cfg["param_b"]) for x in blocks))


def pi2lev_params_ok(Bk, b, Bp, bp, idsz):
    w = (Bk * idsz) // Bp
    return w >= 1 and (b * idsz) // bp == w and b <= Bk * bp and Bk * Bp * bp >= 2


class Pi2Lev(Desc):
    name = "CJJ14.Pi2Lev"

    def st_config(self, draw):
        c = default_config(self.name)
        if draw(st.integers(0, 9)) == 0:
            return c
        lam = draw(st.sampled_from([16, 24, 32]))
        c["param_lambda"] = lam
        c["prf_f_output_length"] = lam
        vals = [1, 2, 3, 4, 8, 64]
        idsz = draw(st.sampled_from([1, 2, 4, 8, 16]))
        combos = PI2LEV_COMBOS[idsz]
        Bk, b, Bp, bp = draw(st.sampled_from(combos))
        c.update(param_B=Bk, param_b=b, param_B_prime=Bp, param_b_prime=bp, param_identifier_size=idsz)
        c["prf_f"] = draw(st.sampled_from(PRF_ALIASES))
        c["ske"] = draw(st.sampled_from(SKE_ALIASES))
        return c

    def limit(self, cfg):
        return cfg["param_B"] * cfg["param_B_prime"] * cfg["param_b_prime"]

    def max_list(self, cfg):
        return min(self.limit(cfg) - 1, 400)

    def max_total(self, cfg):
        return 600

    def a_len(self, cfg, lens):
        A = 1
        for n in lens:
            if n > cfg["param_b"]:
                A += -(-n // cfg["param_B"])
            if n > cfg["param_b_prime"] * cfg["param_B"]:
                A += -(-n // (cfg["param_B"] * cfg["param_B_prime"]))
        return A

    def lens_ok(self, cfg, lens):
        w = (cfg["param_B"] * cfg["param_identifier_size"]) // cfg["param_B_prime"]
        return all(n < self.limit(cfg) for n in lens) and self.a_len(cfg, lens) <= 256 ** w

    def thresholds(self, cfg):
        Bk, b, Bp, bp = cfg["param_B"], cfg["param_b"], cfg["param_B_prime"], cfg["param_b_prime"]
        s = {b - 1, b, b + 1, Bk * bp - 1, Bk * bp, Bk * bp + 1, Bk * Bp * bp - 1, Bk * Bp * bp - 2, Bk, Bk + 1, 2 * Bk, 2 * Bk + 1,
             Bk * Bp, Bk * Bp + 1}
        return sorted(v for v in s if 1 <= v < self.limit(cfg))

    def case_of(self, cfg, n):
        if n <= cfg["param_b"]:
            return "small"
        if n <= cfg["param_B"] * cfg["param_b_prime"]:
            return "medium"
        return "large"

    def pi(self, cfg, db):
        return (len(db), self.a_len(cfg, [len(v) for v in db.values()]))

    def boundary_classes(self, cfg, lens):
        out = Desc.boundary_classes(self, cfg, lens)
        out += sorted({"case:" + self.case_of(cfg, n) for n in lens if self.case_of(cfg, n) != "small"})
        return out


def _pi2lev_combos():
    vals = [1, 2, 3, 4, 8, 64]
    out = {}
    for idsz in (1, 2, 4, 8, 16):
        lst = []
        for Bk in vals:
            for b in vals:
                for Bp in vals:
                    for bp in vals:
                        if pi2lev_params_ok(Bk, b, Bp, bp, idsz):
                            lst.append((Bk, b, Bp, bp))
        out[idsz] = lst
    return out


PI2LEV_COMBOS = _pi2lev_combos()


def _st_label_len(draw, common):
    """label length in bytes: the usual ones, or anything from 8 to 130 (tokens and PRF outputs then exceed 128 / 256 bytes)"""
    k = draw(st.integers(0, 3))
    if k <= 1:
        return draw(st.sampled_from(common))
    if k == 2:
        return draw(st.integers(8, 130))
    return draw(st.sampled_from([64, 96, 100, 128, 130]))


class CT14(Desc):
    name = "CT14.Pi"

    def st_config(self, draw):
        c = default_config(self.name)
        if draw(st.integers(0, 9)) == 0:
            return c
        c["param_k"] = draw(st.sampled_from([8, 16, 20, 24, 32, 48]))
        c["param_k_prime"] = draw(st.sampled_from([16, 24, 32]))
        c["param_l"] = _st_label_len(draw, [8, 16, 20, 32])
        c["param_identifier_size"] = _st_idsz(draw, [1, 4, 8, 16])
        c["prf_f"] = draw(st.sampled_from(PRF_ALIASES))
        c["prf_f_prime"] = draw(st.sampled_from(PRF_ALIASES))
        c["ske"] = draw(st.sampled_from(SKE_ALIASES))
        return c

    def max_total(self, cfg):
        return 300

    def max_list(self, cfg):
        return 260

    def thresholds(self, cfg):
        return [1, 2, 3, 4, 5, 7, 8, 9, 15, 16, 17, 31, 32, 33, 63, 64, 65, 127, 128, 129, 255, 256]

    def pi(self, cfg, db):
        N = sum(len(v) for v in db.values())
        return (N - 1).bit_length()  # ceil(log2 N)


class ANSS16(CT14):
    name = "ANSS16.Scheme3"

    def st_config(self, draw):
        c = default_config(self.name)
        if draw(st.integers(0, 9)) == 0:
            return c
        k = draw(st.sampled_from([16, 24, 32]))
        c["param_k"] = k
        c["param_k_prime"] = k
        c["param_lambda"] = draw(st.sampled_from([16, 32, 48]))
        c["param_l"] = _st_label_len(draw, [8, 16, 32])
        c["param_l_prime"] = _st_label_len(draw, [8, 16, 32])
        c["param_identifier_size"] = _st_idsz(draw, [1, 4, 8, 16])
        c["prf"] = draw(st.sampled_from(PRF_ALIASES))
        c["ske"] = draw(st.sampled_from(SKE_ALIASES))
        return c


class DP17(Desc):
    name = "DP17.Pi"
    result_is_set = True

    def st_config(self, draw):
        c = default_config(self.name)
        if draw(st.integers(0, 9)) == 0:
            return c
        c["param_lambda"] = draw(st.sampled_from([16, 24, 32]))
        c["param_L"] = draw(st.sampled_from([1, 2, 3, 4]))
        c["param_actual_storage_level_ratio"] = draw(st.sampled_from([0.2, 0.5, 1.0]))
        c["param_identifier_size"] = _st_idsz(draw, [1, 4, 8, 16])
        c["rnd"] = draw(st.sampled_from(SKE_ALIASES))
        c["prf_f"] = draw(st.sampled_from(PRF_ALIASES))
        c["hash_h"] = draw(st.sampled_from(["SHA1", "sha1", "sha256", "md5"]))
        return c

    def max_total(self, cfg):
        return 300

    def max_list(self, cfg):
        return 260

    def thresholds(self, cfg):
        L = cfg["param_L"]
        s = {L * 2 ** i + d for i in range(0, 8) for d in (-1, 0, 1)} | {1, 2, 3}
        return sorted(v for v in s if v >= 1)

    def pi(self, cfg, db):
        return sum(len(v) for v in db.values())

    def boundary_classes(self, cfg, lens):
        out = Desc.boundary_classes(self, cfg, lens)
        if cfg["param_L"] > 1:
            out.append("L>1")
        return out


DESCS = {d.name: d for d in [SSE1(), SSE2(), PiBas(), PiPack(), PiPtr(), Pi2Lev(), CT14(), ANSS16(), DP17()]}


def public_cfg(cfg):
    """the dict handed to the library (harness-private keys removed)"""
    return {k: v for k, v in cfg.items() if not k.startswith("_")}


# ---------------------------------------------------------------------------------------------------------
# length profiles
# ---------------------------------------------------------------------------------------------------------
@st.composite
def st_profile(draw, desc, cfg, max_total=None, max_kw=12):
    """A list of posting-list lengths valid for (scheme, cfg); returns (lens, label)."""
    cap_total = min(desc.max_total(cfg), max_total or 10 ** 9)
    cap_list = min(desc.max_list(cfg), cap_total)
    idsz = desc.id_size(cfg)
    cap_list = min(cap_list, 256 ** idsz - 1)
    th = [t for t in desc.thresholds(cfg) if 1 <= t <= cap_list]
    kind = draw(st.sampled_from(["small", "small", "boundary", "boundary", "pow2_single", "pow2_plus1_many", "one_posting",
                                 "single_keyword", "total_near_pow2", "ones", "uniform_pow2"]))
    lens = []
    if kind == "small":
        k = draw(st.integers(1, max_kw))
        lens = [draw(st.integers(1, min(40, cap_list))) for _ in range(k)]
    elif kind == "boundary" and th:
        k = draw(st.integers(1, min(6, max_kw)))
        lens = [draw(st.sampled_from(th)) for _ in range(k)]
    elif kind == "pow2_single":
        j = draw(st.integers(0, 8))
        lens = [min(2 ** j, cap_list)]
    elif kind == "pow2_plus1_many":
        j = draw(st.integers(0, 5))
        k = draw(st.integers(2, 7))
        lens = [min(2 ** j + 1, cap_list)] * k
    elif kind == "one_posting":
        lens = [1]
    elif kind == "uniform_pow2":
        # 2^a keywords with 2^b postings each: N is a power of two and every list length too (no padding entry is needed anywhere)
        lens = [min(2 ** draw(st.integers(0, 3)), cap_list)] * min(2 ** draw(st.integers(1, 4)), max_kw if max_kw >= 2 else 2)
    elif kind == "single_keyword":
        lens = [draw(st.one_of(st.integers(1, cap_list), st.sampled_from(th) if th else st.just(1)))]
    elif kind == "total_near_pow2":
        t = draw(st.integers(1, 7))
        target = max(1, 2 ** t + draw(st.sampled_from([-1, 0, 1])))
        k = draw(st.integers(1, min(6, target, max_kw)))
        # random composition of target into k positive parts
        cuts = sorted(draw(st.lists(st.integers(1, max(1, target - 1)), min_size=k - 1, max_size=k - 1, unique=True))) if k > 1 and target > k else []
        parts, prev = [], 0
        for c in cuts:
            parts.append(c - prev)
            prev = c
        parts.append(target - prev)
        lens = [p for p in parts if p >= 1] or [target]
    else:  # ones
        lens = [1] * draw(st.integers(1, max_kw))
    if not lens:
        lens = [1]
    lens = [max(1, min(n, cap_list)) for n in lens]
    # respect the total capacity by dropping / trimming from the end
    out, tot = [], 0
    for n in lens:
        if tot + n > cap_total:
            n = cap_total - tot
        if n >= 1:
            out.append(n)
            tot += n
    if not out:
        out = [1]
    if isinstance(desc, Pi2Lev) and not desc.lens_ok(cfg, out):
        out = [min(n, max(1, desc.limit(cfg) - 1)) for n in out]
        while not desc.lens_ok(cfg, out) and len(out) > 1:
            out.pop()
        if not desc.lens_ok(cfg, out):
            out = [1]
    return out, kind


@st.composite
def st_db_spec(draw, desc, cfg, max_total=None, max_kw=12, lens=None):
    if lens is None:
        lens, label = draw(st_profile(desc, cfg, max_total, max_kw))
    else:
        label = "given"
    idsz = desc.id_size(cfg)
    kws = draw(st_keywords(len(lens), desc.kw_limit(cfg)))
    M = 256 ** idsz - 1
    modes = ["be", "le", "rand", "pool", "special"] if idsz >= 2 else ["be", "pool", "special"]
    mode = draw(st.sampled_from(modes))
    if mode in ("be", "le") and sum(lens) > M:
        mode = "pool"
    spec = {"id_size": idsz, "kws": [k.hex() for k in kws], "lens": list(lens), "id_mode": mode,
            "id_seed": draw(st.integers(0, 1000)), "profile": label}
    if mode == "pool":
        spec["pool_shift"] = draw(st.sampled_from([1, 1, 2, 3]))
    if len(lens) >= 2 and draw(st.integers(0, 5)) == 0:
        i, j = draw(st.integers(0, len(lens) - 1)), draw(st.integers(0, len(lens) - 1))
        if i != j and label == "given":
            if spec["lens"][i] == spec["lens"][j]:   # the caller fixed the lengths: only lists of equal length can be one object
                spec["alias"] = [i, j]
        elif i != j and _alias_ok(desc, cfg, lens, i, j):
            spec["alias"] = [i, j]
            spec["lens"][i] = spec["lens"][j]
    if draw(st.booleans()):  # iteration order of the dict is part of the input
        order = draw(st.permutations(list(range(len(lens)))))
        spec["kws"] = [spec["kws"][i] for i in order]
        spec["lens"] = [spec["lens"][i] for i in order]
        if "alias" in spec:
            spec["alias"] = [list(order).index(x) for x in spec["alias"]]
    return spec


@st.composite
def st_scheme_case(draw, scheme, max_total=None, max_kw=12):
    desc = DESCS[scheme]
    cfg = desc.st_config(draw)
    spec = draw(st_db_spec(desc, cfg, max_total, max_kw))
    case = {"scheme": scheme, "cfg": cfg, "db": spec, "seed": draw(st.integers(0, 2 ** 48))}
    if draw(st.integers(0, 5)) == 0:
        case["db"]["kw_prng"] = True
    if draw(st.integers(0, 3)) == 0:
        from vlib.drbg import KEY_PATTERNS
        case["key_pattern"] = draw(st.sampled_from(KEY_PATTERNS))   # key bytes with structured ends (line break, NUL, blank, padding ...)
    return case


def prepare(case):
    """case -> (desc, loader, finalized public config dict, db)"""
    desc = DESCS[case["scheme"]]
    db = build_db(case["db"])
    if case["db"].get("kw_prng") and db:
        # the application drew this keyword from Python's global `random` module, seeded the way vlib.drbg.entropy seeds it for this
        # case: a stored keyword equal to what the generator hands out first
        import random as _random
        r = _random.Random()
        r.seed(int.from_bytes(hashlib.sha256(b"rnd:" + repr(case["seed"]).encode()).digest()[:8], "big"))
        limit = desc.kw_limit(desc.finalize(case["cfg"], db))
        kw = r.randbytes(min(32, limit))
        if kw[0] != 0 and kw not in db:
            first = next(iter(db))
            db = {(kw if k == first else k): v for k, v in db.items()}
    cfg = public_cfg(desc.finalize(case["cfg"], db))
    return desc, load(case["scheme"]), cfg, db


def result_value(desc, result):
    r = result.get_result_list()
    return r


def expected(desc, db, w):
    v = db.get(w, [])
    return set(v) if desc.result_is_set else list(v)


def result_matches(desc, got, db, w):
    want = expected(desc, db, w)
    if desc.result_is_set:
        return isinstance(got, set) and got == want
    return isinstance(got, list) and got == want


def partitions(n, max_part=None):
    """all integer partitions of n as non-increasing lists"""
    if max_part is None:
        max_part = n
    if n == 0:
        yield []
        return
    for first in range(min(n, max_part), 0, -1):
        for rest in partitions(n - first, first):
            yield [first] + rest


# ---------------------------------------------------------------------------------------------------------
# generic EDB walker
# ---------------------------------------------------------------------------------------------------------
def edb_payload(edb_bytes):
    """EDB.serialize() is HEADER + pickle.dumps(containers): returns the unpickled containers."""
    i = edb_bytes.index(b"\x80")  # pickle protocol marker; headers never contain 0x80 after their 2-byte prefix
    # headers start with b"\x93\x94" + ascii text; the pickle starts at the first 0x80 byte
    return pickle.loads(edb_bytes[i:])


def walk(obj, path=()):
    """yields (path, kind, key, value) for every dict entry / list slot, recursively"""
    if isinstance(obj, dict):
        for k, v in obj.items():
            if isinstance(v, (dict, list, tuple)):
                yield from walk(v, path + ("{%r}" % (k,),))
            else:
                yield (path, "dict", k, v)
    elif isinstance(obj, (list, tuple)):
        container_like = any(isinstance(v, (dict, list, tuple)) for v in obj)
        for i, v in enumerate(obj):
            if isinstance(v, (dict, list, tuple)):
                yield from walk(v, path + ("[%d]" % i,))
            else:
                yield (path, "list", i, v)
    else:
        yield (path, "leaf", None, obj)


def tables(obj, path=()):
    """yields (path, container) for every dict / list container, recursively (containers of containers included)"""
    if isinstance(obj, dict):
        yield (path, obj)
        for k, v in obj.items():
            if isinstance(v, (dict, list, tuple)):
                yield from tables(v, path + ("{%r}" % (k,),))
    elif isinstance(obj, (list, tuple)):
        yield (path, obj)
        for i, v in enumerate(obj):
            if isinstance(v, (dict, list, tuple)):
                yield from tables(v, path + ("[%d]" % i,))

"""Generic implementation behind C01 (present keywords) and C02 (absent keywords)."""
import hashlib

from hypothesis import strategies as st

from vlib import hyp
from vlib import schemes as S
from vlib.drbg import entropy
from vlib.runner import ShardResult, Violation
from vlib.search_common import Built, check_absent, check_batch, check_present

SMALL_CONFIGS = {
    "CGKO06.SSE1": [
        {"param_k": 16, "param_l": 8, "param_s": 32, "param_dictionary_size": 3, "param_identifier_size": 4},
        {"param_k": 24, "param_l": 16, "param_s": 64, "param_dictionary_size": 64, "param_identifier_size": 1},
        {"param_k": 32, "param_l": 8, "param_s": 128, "param_dictionary_size": 0, "param_identifier_size": 8},
    ],
    "CGKO06.SSE2": [
        {"param_k": 16, "param_l": 8, "param_max_file_size": 16, "param_identifier_size": 4, "param_n": 0},
        {"param_k": 24, "param_l": 8, "param_max_file_size": 300, "param_identifier_size": 1, "param_n": -1},
        {"param_k": 32, "param_l": 16, "param_max_file_size": 2 ** 20, "param_identifier_size": 8, "param_n": -5},
    ],
    "CJJ14.PiBas": [
        {"param_lambda": 16, "prf_f_output_length": 16, "_id_size": 4},
        {"param_lambda": 24, "prf_f_output_length": 24, "_id_size": 1},
        {"param_lambda": 32, "prf_f_output_length": 32, "_id_size": 13},
    ],
    "CJJ14.PiPack": [
        {"param_lambda": 16, "prf_f_output_length": 16, "param_B": 2, "param_identifier_size": 2},
        {"param_lambda": 24, "prf_f_output_length": 24, "param_B": 3, "param_identifier_size": 1},
        {"param_lambda": 32, "prf_f_output_length": 32, "param_B": 4, "param_identifier_size": 8},
    ],
    "CJJ14.PiPtr": [
        {"param_lambda": 16, "prf_f_output_length": 16, "param_B": 2, "param_b": 2, "param_identifier_size": 2},
        {"param_lambda": 24, "prf_f_output_length": 24, "param_B": 1, "param_b": 3, "param_identifier_size": 1},
        {"param_lambda": 32, "prf_f_output_length": 32, "param_B": 3, "param_b": 1, "param_identifier_size": 4},
    ],
    "CJJ14.Pi2Lev": [
        {"param_lambda": 16, "prf_f_output_length": 16, "param_B": 2, "param_b": 2, "param_B_prime": 2, "param_b_prime": 2,
         "param_identifier_size": 2},
        {"param_lambda": 24, "prf_f_output_length": 24, "param_B": 3, "param_b": 4, "param_B_prime": 3, "param_b_prime": 4,
         "param_identifier_size": 1},
        {"param_lambda": 32, "prf_f_output_length": 32, "param_B": 4, "param_b": 1, "param_B_prime": 4, "param_b_prime": 1,
         "param_identifier_size": 4},
    ],
    "CT14.Pi": [
        {"param_k": 16, "param_k_prime": 16, "param_l": 8, "param_identifier_size": 4},
        {"param_k": 8, "param_k_prime": 24, "param_l": 20, "param_identifier_size": 1},
        {"param_k": 48, "param_k_prime": 32, "param_l": 16, "param_identifier_size": 8},
    ],
    "ANSS16.Scheme3": [
        {"param_k": 16, "param_k_prime": 16, "param_lambda": 16, "param_l": 8, "param_l_prime": 8, "param_identifier_size": 4},
        {"param_k": 24, "param_k_prime": 24, "param_lambda": 48, "param_l": 16, "param_l_prime": 8, "param_identifier_size": 1},
        {"param_k": 32, "param_k_prime": 32, "param_lambda": 32, "param_l": 8, "param_l_prime": 32, "param_identifier_size": 8},
    ],
    "DP17.Pi": [
        {"param_lambda": 16, "param_L": 1, "param_actual_storage_level_ratio": 0.5, "param_identifier_size": 4},
        {"param_lambda": 24, "param_L": 2, "param_actual_storage_level_ratio": 1.0, "param_identifier_size": 1, "hash_h": "md5"},
        {"param_lambda": 32, "param_L": 3, "param_actual_storage_level_ratio": 0.2, "param_identifier_size": 8, "hash_h": "sha256"},
    ],
}


def small_config(scheme, i):
    c = S.default_config(scheme)
    c.update(SMALL_CONFIGS[scheme][i % len(SMALL_CONFIGS[scheme])])
    return c


def explicit_case(scheme, cfg, lens, seed, id_mode="be", id_seed=7):
    desc = S.DESCS[scheme]
    kws = [(b"w%d" % i).hex() for i in range(len(lens))]
    return {"scheme": scheme, "cfg": cfg,
            "db": {"id_size": desc.id_size(cfg), "kws": kws, "lens": list(lens), "id_mode": id_mode, "id_seed": id_seed,
                   "profile": "explicit"},
            "seed": seed}


def lens_valid(desc, cfg, lens):
    idsz = desc.id_size(cfg)
    if any(n > 256 ** idsz - 1 for n in lens):
        return False
    if sum(lens) > 256 ** idsz - 1:  # 'be' id mode needs globally distinct ids
        return False
    if isinstance(desc, S.SSE1) and sum(lens) > cfg["param_s"] - 1:
        return False
    if isinstance(desc, S.Pi2Lev) and not desc.lens_ok(cfg, lens):
        return False
    return True


BOUNDARY_PROFILES = [[1], [2], [3], [4], [8], [16], [32], [64], [128], [255], [256], [1, 1], [2, 2], [1, 3], [3, 3, 3, 3, 3], [5, 5, 5],
                     [9, 9, 9, 9, 9, 9, 9], [17, 17, 17], [15], [7, 1], [63, 1], [65], [33, 31], [1] * 16, [2] * 8, [1] * 7, [4, 4, 4, 4],
                     [127, 1], [129], [100, 28], [31], [6, 2], [12, 4], [24, 8]]


def explicit_cases(scheme, tier, seed):
    desc = S.DESCS[scheme]
    nconf = 1 if tier == "quick" else 3
    maxN = 9 if tier == "quick" else 16
    for ci in range(nconf):
        cfg = small_config(scheme, ci)
        for N in range(1, maxN + 1):
            for part in S.partitions(N):
                if lens_valid(desc, cfg, part):
                    yield ("partition", explicit_case(scheme, cfg, part, seed + N))
    for ci in range(3 if tier != "quick" else 2):
        cfg = small_config(scheme, ci)
        for prof in BOUNDARY_PROFILES:
            if isinstance(desc, S.SSE2) and sum(prof) > 70:
                continue
            if lens_valid(desc, cfg, prof):
                yield ("boundary", explicit_case(scheme, cfg, prof, seed + len(prof)))
    if scheme == "CJJ14.PiPtr":
        # the array index width changes when the array grows past 256 slots (1-byte -> 2-byte pointers)
        for bb in (2, 64):
            cfg = small_config(scheme, 1)
            cfg.update(param_B=1, param_b=bb, param_identifier_size=2)
            for prof in ([254], [255], [256], [257], [130, 126], [128, 128], [200, 100]):
                yield ("index_width_boundary", explicit_case(scheme, cfg, prof, seed))
    if scheme == "CJJ14.Pi2Lev":
        # one-byte array pointers: the array may hold exactly 256 entries (the largest pointer is 255) and not one more
        cfg = S.default_config(scheme)
        cfg.update(param_identifier_size=2, param_B=2, param_b=2, param_B_prime=4, param_b_prime=4)
        for prof in ([8] * 63 + [3], [8] * 63 + [5], [8] * 62 + [9], [8] * 62 + [7], [8] * 63):
            if lens_valid(desc, cfg, prof):
                yield ("pointer_width_boundary", explicit_case(scheme, dict(cfg), prof, seed))
    if scheme == "CGKO06.SSE2":
        # SSE-2 keeps identifiers in the clear inside its serialized index: identifiers that contain the format's own magic bytes
        cfg = small_config(scheme, 0)
        cfg["param_identifier_size"] = 24
        yield ("identifiers_containing_format_magic", explicit_case(scheme, cfg, [3, 2], seed, id_mode="special", id_seed=8))
    if scheme == "CGKO06.SSE2":
        # one keyword in more than 256 documents (the per-document counter of the PRP input needs a second byte)
        cfg = small_config(scheme, 0)
        c = explicit_case(scheme, cfg, [300, 2], seed)
        yield ("sse2_counter_beyond_one_byte", c)
    # the documented default configuration at its own boundaries
    dcfg = S.default_config(scheme)
    dprofs = [[1], [2], [64], [65], [63, 65, 1], [128], [129, 1]]
    if tier != "quick":
        dprofs += [[4096], [4097], [256], [255, 1], [4095, 1], [1000, 24]]
    for prof in dprofs:
        if isinstance(desc, S.SSE2) and sum(prof) > 70:
            continue
        if isinstance(desc, S.SSE1) and tier == "quick" and prof != [64]:
            continue  # default SSE-1 has a 2^16 array (about 0.3 s per setup): one case in the quick tier
        if lens_valid(desc, dcfg, prof):
            yield ("default_cfg", explicit_case(scheme, dcfg, prof, seed))


def fp_of(case):
    return [case["scheme"], sorted((k, repr(v)) for k, v in S.public_cfg(case["cfg"]).items()), sorted(case["db"]["lens"]),
            case["db"]["id_mode"]]


def sample_of(case):
    return {"scheme": case["scheme"], "cfg": S.public_cfg(case["cfg"]), "lens": case["db"]["lens"], "kws": case["db"]["kws"][:4],
            "id_mode": case["db"]["id_mode"], "seed": case["seed"]}


def classes_of(case):
    desc = S.DESCS[case["scheme"]]
    lens = case["db"]["lens"]
    out = ["scheme:" + case["scheme"], "profile:" + case["db"].get("profile", "?")]
    out += ["boundary:" + b for b in desc.boundary_classes(case["cfg"], lens)]
    out.append("cfg:default" if desc.is_default(S.public_cfg(case["cfg"])) else "cfg:non_default")
    if case.get("key_pattern"):
        out.append("key_bytes:" + case["key_pattern"])
    if case["db"].get("alias"):
        out.append("db:one_list_object_under_two_keywords")
    if case["db"].get("id_mode") == "special":
        out.append("db:identifiers_with_structured_content")
    return out


def run_present(case):
    """C01 on one case: every stored keyword returns exactly its posting list."""
    with entropy(case["seed"]):
        built = Built(case)
        for w in built.db:
            check_present(built, w)
        check_batch(built, list(built.db)[:8])


def absent_for(case, built):
    extra = []
    for i in range(3):
        h = hashlib.sha256(b"absent/%d/%d" % (case["seed"], i)).digest()
        n = 1 + h[0] % min(built.desc.kw_limit(built.cfg), 24)
        b = h[1:1 + n]
        if b[0] == 0:
            b = b"\x01" + b[1:]
        extra.append(b)
    for h in case.get("absent", []):
        extra.append(bytes.fromhex(h))
    out = S.absent_keywords(list(built.db.keys()), built.desc.kw_limit(built.cfg), extra)
    # what Python's global `random` module hands out first after being seeded the way this case seeds it (vlib.drbg.entropy): a
    # keyword an outsider can compute without the key; it is absent from the database like any other
    import random as _random
    limit = built.desc.kw_limit(built.cfg)
    have = set(built.db.keys()) | {w for w, _ in out}
    for L in sorted({32, min(limit, 64), min(limit, 16)}):
        r = _random.Random()
        r.seed(int.from_bytes(hashlib.sha256(b"rnd:" + repr(case["seed"]).encode()).digest()[:8], "big"))
        for _ in range(2):
            b = r.randbytes(L)
            if b and b[0] != 0 and len(b) <= limit and b not in have:
                have.add(b)
                out.append((b, "first_outputs_of_the_seeded_global_random"))
    return out


def run_absent(case, res=None):
    """C02 on one case: absent keywords (close and random), interleaved with present ones, return empty results."""
    with entropy(case["seed"]):
        built = Built(case)
        kws = list(built.db.keys())
        absent = absent_for(case, built)
        for i, (w, tag) in enumerate(absent):
            check_absent(built, w, tag)
            if res is not None:
                res.cls("absent:" + tag)
            if i < len(kws):  # interleave with a present keyword; its correctness belongs to C01 but an exception here is ours
                built.search(kws[i])
        # the empty byte string is not a valid keyword (so a loud refusal is acceptable), but it is a prefix of every stored
        # keyword: if the search completes it must not return identifiers of other keywords or of padding entries
        try:
            got = built.scheme.Search(built.edb, built.scheme.TokenGen(built.key, b"")).get_result_list()
        except Exception:
            got = None
            if res is not None:
                res.cls("absent:empty_keyword_refused")
        if got is not None:
            if res is not None:
                res.cls("absent:empty_keyword")
            if len(got) != 0:
                raise Violation("%s: Search(empty keyword) returned %d identifiers: %r" % (built.scheme_name, len(got), list(got)[:3]),
                                "%s:absent_nonempty" % built.scheme_name)
        # the same scheme object and key encrypt a SECOND database from which the first keyword is missing (an application
        # re-indexing after a deletion): that keyword is now absent and must give an empty result on the new index
        if len(kws) >= 2:
            import gc
            first_kw = kws[0]
            db2 = {w: list(v) for w, v in built.db.items() if w != first_kw}
            built.search(first_kw)
            old = built.edb
            built.edb = None
            del old
            gc.collect()
            try:
                edb2 = built.scheme.EDBSetup(built.key, db2)
            except Exception as e:
                from vlib.search_common import stage_violation
                raise stage_violation(built.scheme_name, "EDBSetup(second database, same scheme object)", e)
            built.edb, built.db = edb2, db2
            check_absent(built, first_kw, "removed_in_second_database")
            for w in list(db2)[:3]:
                check_present(built, w)
            if res is not None:
                res.cls("absent:removed_in_second_database")
        # the index is a value: the SAME scheme object encrypts yet another database (more than twice as large where the
        # configuration has room, otherwise half as large) and then the EARLIER index is searched again
        if len(built.db) >= 1:
            from vlib.search_common import stage_violation
            keep_db, keep_edb = built.db, built.edb
            other = S.grown_db(built.desc, built.cfg, keep_db)
            how = "larger"
            if other is None:
                how = "smaller"
                ks = list(keep_db)
                other = {w: list(keep_db[w]) for w in ks[:max(1, len(ks) // 2)]}
            try:
                built.scheme.EDBSetup(built.key, other)
            except Exception as e:
                raise stage_violation(built.scheme_name, "EDBSetup(%s database, same scheme object)" % how, e)
            for w, tag in absent[:3]:
                if w not in keep_db:
                    check_absent(built, w, tag + ", earlier index searched after a %s database was encrypted by the same scheme object" % how)
            for w in list(keep_db)[:3]:
                check_present(built, w)
            if res is not None:
                res.cls("absent:earlier_index_after_%s_setup" % how)
        # two indexes ALIVE at once under one scheme object and one key (an application keeping the old index while it builds the
        # new one): a keyword stored in the first and absent from the second is searched alternately on both
        ks = list(built.db)
        if len(ks) >= 2:
            from vlib.search_common import stage_violation
            db_a, edb_a = built.db, built.edb
            gone = ks[0]
            db_b = {w: list(v) for w, v in db_a.items() if w != gone}
            try:
                edb_b = built.scheme.EDBSetup(built.key, db_b)
            except Exception as e:
                raise stage_violation(built.scheme_name, "EDBSetup(second live database, same scheme object)", e)
            try:
                for _ in range(2):
                    built.db, built.edb = db_a, edb_a
                    check_present(built, gone)
                    built.db, built.edb = db_b, edb_b
                    check_absent(built, gone, "stored in one live index and absent from the other, same scheme object and key")
                    check_present(built, ks[1])
            finally:
                built.db, built.edb = db_a, edb_a
            if res is not None:
                res.cls("absent:two_live_indexes")
        return len(absent)


def short_keyword_sweep(scheme, tier, seed):
    """databases whose keywords are all one byte long, N not a power of two; every other one-byte keyword is searched"""
    desc = S.DESCS[scheme]
    for ci in range(1 if tier == "quick" else 3):
        cfg = small_config(scheme, ci)
        for lens in ([1, 2], [3], [2, 2, 1], [5, 1]) if tier == "quick" else ([1, 2], [3], [2, 2, 1], [5, 1], [6, 3, 2], [7], [9, 1, 1]):
            if not lens_valid(desc, cfg, lens):
                continue
            case = explicit_case(scheme, cfg, lens, seed + sum(lens))
            case["db"]["kws"] = [bytes([65 + 7 * i]).hex() for i in range(len(lens))]
            case["sweep"] = True
            yield case


def run_sweep(case, res=None):
    with entropy(case["seed"]):
        built = Built(case)
        n = 0
        for b in range(1, 256):
            w = bytes([b])
            if w in built.db:
                continue
            check_absent(built, w, "one_byte_sweep")
            n += 1
        if res is not None:
            res.classes["absent:one_byte_sweep"] = res.classes.get("absent:one_byte_sweep", 0) + n


HUGE_SCHEMES = [s for s in S.SCHEMES if s != "CGKO06.SSE2"]   # SSE-2 tokens cost one PRP call per document: 2**16 is out of reach
HUGE_CHEAP = ("CJJ14.PiPack", "CJJ14.PiPtr", "CJJ14.Pi2Lev")


def huge_cases(scheme, tier, seed):
    """a keyword contained in 2**16 - 1, 2**16, 2**16 + 1 documents (where counters, counts and widths of 16 bits end),
    next to two ordinary keywords; default configuration with the capacity raised where the scheme has one"""
    sizes = [65535, 65536, 65537] if (scheme in HUGE_CHEAP or tier != "quick") else [65536]
    if scheme in HUGE_CHEAP:
        sizes.append(131073 if tier == "quick" else 262145)
    for big in sizes:
        cfg = S.default_config(scheme)
        if isinstance(S.DESCS[scheme], S.Pi2Lev) and big >= S.DESCS[scheme].limit(cfg):
            big = S.DESCS[scheme].limit(cfg) - 1   # the two-level scheme has a per-keyword capacity (B*B'*b'); stay just inside it
        if scheme == "CGKO06.SSE1":
            cfg.update(param_s=1 << (big + 4).bit_length(), param_dictionary_size=8)
        desc = S.DESCS[scheme]
        idsz = max(4, desc.id_size(cfg)) if "param_identifier_size" not in cfg else cfg["param_identifier_size"]
        if "param_identifier_size" in cfg and cfg["param_identifier_size"] < 3:
            cfg["param_identifier_size"] = idsz = 4
        yield {"scheme": scheme, "cfg": cfg, "seed": seed + big, "huge": True,
               "db": {"id_size": idsz, "kws": [b"the".hex(), b"of".hex(), b"rare".hex()], "lens": [big, 2, 1], "id_mode": "be",
                      "id_seed": seed % 1000 + 1, "profile": "huge"}}


def make_shards(tier, huge=False):
    out = []
    if huge:
        out += [{"kind": "huge", "scheme": s} for s in HUGE_SCHEMES]
    for s in S.SCHEMES:
        out.append({"kind": "hyp", "scheme": s, "i": 0})
        out.append({"kind": "explicit", "scheme": s})
    if tier == "thorough":
        for s in S.SCHEMES:
            out.append({"kind": "hyp", "scheme": s, "i": 1})
    return out


def run_shard_generic(spec, seed, tier, mode):
    res = ShardResult()
    scheme = spec["scheme"]
    run = run_present if mode == "present" else None

    def nontrivial(case):
        desc = S.DESCS[scheme]
        if mode == "present":
            return bool(desc.boundary_classes(case["cfg"], case["db"]["lens"]))
        return True  # C02: every case carries adversarially close absent keywords (counted per tag in classes)

    def body(case, r):
        r.count(fp_of(case), nontrivial(case), classes_of(case), sample=sample_of(case))
        if mode == "present":
            run_present(case)
        else:
            run_absent(case, r)

    if spec["kind"] == "huge":
        first = {}
        for case in huge_cases(scheme, tier, seed % 100000):
            res.count(fp_of(case), True, classes_of(case) + ["explicit:posting_list_around_2**16"], sample=sample_of(case))
            try:
                run_present(case)
            except Violation as v:
                first.setdefault(v.bucket, (case, str(v)))
        for bucket, (case, msg) in first.items():
            res.add_violation(case, msg, bucket)
        return res
    if spec["kind"] == "hyp":
        n = (200 if tier == "quick" else 1500)
        if scheme == "CGKO06.SSE2":
            n = n // 2
        hyp.search(res, S.st_scheme_case(scheme), body, seed, n)
    else:
        first = {}
        count = {}
        cases = list(explicit_cases(scheme, tier, seed % 1000))
        if mode == "absent" and scheme != "CGKO06.SSE2":
            cases += [("one_byte_sweep", c) for c in short_keyword_sweep(scheme, tier, seed % 1000)]
        for label, case in cases:
            if mode == "absent" and label == "partition" and sum(case["db"]["lens"]) > 8:
                continue
            count[label] = count.get(label, 0) + 1
            res.count(fp_of(case), nontrivial(case), classes_of(case) + ["explicit:" + label], sample=sample_of(case))
            try:
                if mode == "present":
                    run_present(case)
                elif case.get("sweep"):
                    run_sweep(case, res)
                else:
                    run_absent(case, res)
            except Violation as v:
                if v.bucket not in first:
                    first[v.bucket] = (case, str(v))
        res.exhaustive = False
        res.extra["explicit_" + scheme] = count
        res.extra["partition_bounds"] = ("all integer partitions of N for N <= %d under %d small configuration(s) per scheme "
                                         "(complete enumeration of that finite space)" % ((9, 1) if tier == "quick" else (16, 3)))
        for bucket, (case, msg) in first.items():
            res.add_violation(case, msg, bucket)
    return res


def replay_generic(case, mode):
    try:
        if mode == "present":
            run_present(case)
        elif case.get("sweep"):
            run_sweep(case)
        else:
            run_absent(case)
    except Violation as v:
        return str(v)
    return None

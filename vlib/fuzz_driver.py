"""Coverage-guided driver: atheris/libFuzzer feeding bytes into a Hypothesis strategy (fuzz_one_input).

usage: fuzz_driver.py <props module> <out.json> <seed> <runs>
The props module provides FUZZ_STRATEGY() and fuzz_body(case) (raises Violation) and optionally FUZZ_IMPORTS.
Violations are collected (first case per bucket) instead of crashing, so the campaign continues past a finding.
The output file is rewritten periodically because libFuzzer ends the process without running atexit handlers.
"""
import json
import os
import sys

sys.dont_write_bytecode = True
HERE = os.path.dirname(os.path.dirname(os.path.abspath(__file__)))
sys.path.insert(0, HERE)
from vlib import runner  # noqa

runner.setup_environment()
import atheris  # noqa

modname, out_path, seed, runs = sys.argv[1], sys.argv[2], int(sys.argv[3]), int(sys.argv[4])
import importlib  # noqa

with atheris.instrument_imports(include=["toolkit", "data_persistence"]):
    for m in ["toolkit.bits", "toolkit.bits_utils", "toolkit.bytes_utils", "toolkit.database_utils",
              "toolkit.list_utils", "toolkit.symmetric_encryption.fpe", "toolkit.prp.bitwise_fpe_prp",
              "toolkit.prp.luby_rackoff_prp", "toolkit.prp.hmac_luby_rackoff_prp", "toolkit.prf.hmac_prf",
              "toolkit.hash"]:
        importlib.import_module(m)

mod = importlib.import_module(modname)
from hypothesis import given, settings, HealthCheck  # noqa
from vlib.runner import Violation, _json_default  # noqa

state = {"executions": 0, "violations": {}}


def dump():
    tmp = out_path + ".tmp"
    with open(tmp, "w") as f:
        json.dump({"executions": state["executions"],
                   "violations": [{"bucket": b, "case": c, "msg": m} for b, (c, m) in state["violations"].items()]},
                  f, default=_json_default)
    os.replace(tmp, out_path)


@settings(database=None, deadline=None, suppress_health_check=list(HealthCheck))
@given(mod.FUZZ_STRATEGY())
def test(case):
    state["executions"] += 1
    try:
        mod.fuzz_body(case)
    except Violation as v:
        if v.bucket not in state["violations"]:
            state["violations"][v.bucket] = (case, str(v))
            dump()
    if state["executions"] % 1000 == 0:
        dump()


def one_input(data):
    test.hypothesis.fuzz_one_input(data)
    if state["executions"] >= runs:
        dump()
        os._exit(0)


dump()
atheris.Setup([sys.argv[0], "-seed=%d" % (seed or 1), "-runs=%d" % (runs * 4), "-max_len=4096", "-verbosity=0"], one_input)
atheris.Fuzz()

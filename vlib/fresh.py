"""Run a job in a fresh interpreter (see vlib/fresh_child.py)."""
import json
import os
import subprocess
import sys
import tempfile

from vlib.runner import HarnessError, VERIF_DIR

CHILD = os.path.join(VERIF_DIR, "vlib", "fresh_child.py")


def db_to_json(db):
    return [[k.hex(), [x.hex() for x in v]] for k, v in db.items()]


def run_job(job, hashseed, timeout=180):
    """returns the child's result dict; a child that dies is reported as {'error': ...} (the caller decides what that means)"""
    with tempfile.TemporaryDirectory(prefix="ssepy-fresh-") as td:
        jp, op = os.path.join(td, "job.json"), os.path.join(td, "out.json")
        with open(jp, "w") as f:
            json.dump(job, f)
        env = dict(os.environ, PYTHONHASHSEED=str(hashseed), PYTHONDONTWRITEBYTECODE="1")
        try:
            p = subprocess.run([sys.executable, CHILD, jp, op], env=env, capture_output=True, text=True, timeout=timeout, cwd=td)
        except subprocess.TimeoutExpired:
            raise HarnessError("fresh-interpreter job %s did not finish within %d s (inconclusive)" % (job.get("kind"), timeout))
        if p.returncode != 0 or not os.path.exists(op):
            tail = (p.stderr or "").strip().splitlines()[-1:] or ["?"]
            return {"error": "child exited %s: %s" % (p.returncode, tail[0][:300])}
        with open(op) as f:
            return json.load(f)

"""Jobs executed in a FRESH interpreter (a real process boundary): what a restarted client or a separate server does.

usage: fresh_child.py <job.json> <out.json>        (run by vlib.fresh.run_job with its own PYTHONHASHSEED)
job kinds:
  setup          {scheme, cfg, key_hex, db:[[kw_hex,[id_hex..]]..]}            -> {edb_hex}
  setup_forked   same; the interpreter first uses the library once, then forks twice; both children run the setup
                                                                                 -> {edb_hex_list:[..,..]}
  server_search  {scheme, cfg (JSON), edb_hex, tokens:[hex..]}                  -> {results:[[id_hex..]..], is_set}
  reads          {scheme, cfg, key_hex, db}  setup + search with recording lists -> {reads:[[slot..]..]}
No DRBG is installed here: the child uses the operating system's entropy, like a real process.
"""
import json
import os
import sys

sys.dont_write_bytecode = True
HERE = os.path.dirname(os.path.dirname(os.path.abspath(__file__)))
sys.path.insert(0, HERE)
from vlib import runner  # noqa

runner.setup_environment()


def B(h):
    return bytes.fromhex(h)


def load(scheme):
    import schemes
    return schemes.load_sse_module(scheme)


def do_setup(job):
    loader = load(job["scheme"])
    cfg = json.loads(json.dumps(job["cfg"]))
    sch = loader.SSEScheme(cfg)
    key = loader.SSEKey.deserialize(B(job["key_hex"]), loader.SSEConfig(json.loads(json.dumps(job["cfg"]))))
    db = {B(k): [B(x) for x in v] for k, v in job["db"]}
    return sch, key, db, sch.EDBSetup(key, db)


def recorded_reads(scheme, sch, key, db, edb):
    log = []

    class Rec(list):
        def __init__(self, items, tag=None):
            super().__init__(items)
            self.tag = tag

        def __getitem__(self, i):
            if not isinstance(i, slice):
                log.append(i if self.tag is None else [self.tag, i])
            return list.__getitem__(self, i)
    if scheme == "DP17.Pi":
        edb.A_dict = {lvl: Rec(lst, lvl) for lvl, lst in edb.A_dict.items()}
    else:
        edb.A = Rec(edb.A)
    reads = []
    for w in db:
        del log[:]
        sch.Search(edb, sch.TokenGen(key, w))
        reads.append(list(log))
    return reads


def main():
    job = json.load(open(sys.argv[1]))
    kind = job["kind"]
    out = {}
    if kind == "setup":
        _, _, _, edb = do_setup(job)
        out["edb_hex"] = edb.serialize().hex()
    elif kind == "setup_forked":
        # a parent process that has already used the library (buffers filled, counters advanced), then pre-forks two workers
        loader = load(job["scheme"])
        warm = loader.SSEScheme(json.loads(json.dumps(job["cfg"])))
        wk = warm.KeyGen()
        db = {B(k): [B(x) for x in v] for k, v in job["db"]}
        warm.EDBSetup(wk, db)
        outs = []
        for i in range(2):
            r, w = os.pipe()
            pid = os.fork()
            if pid == 0:
                os.close(r)
                try:
                    _, _, _, edb = do_setup(job)
                    data = edb.serialize().hex().encode()
                except BaseException as e:  # noqa
                    data = ("ERROR:%s:%s" % (type(e).__name__, e)).encode()
                with os.fdopen(w, "wb") as f:
                    f.write(data)
                os._exit(0)
            os.close(w)
            with os.fdopen(r, "rb") as f:
                outs.append(f.read().decode())
            os.waitpid(pid, 0)
        out["edb_hex_list"] = outs
    elif kind == "server_search":
        loader = load(job["scheme"])
        cfg = json.loads(json.dumps(job["cfg"]))
        sch = loader.SSEScheme(cfg)
        cobj = loader.SSEConfig(json.loads(json.dumps(job["cfg"])))
        edb = loader.SSEEncryptedDatabase.deserialize(B(job["edb_hex"]), cobj)
        res = []
        is_set = False
        for t in job["tokens"]:
            tok = loader.SSEToken.deserialize(B(t), cobj)
            r = sch.Search(edb, tok)
            raw = r.serialize()
            back = loader.SSEResult.deserialize(raw, cobj).get_result_list()
            is_set = isinstance(back, set)
            res.append(sorted(x.hex() for x in back) if is_set else [x.hex() for x in back])
        out["results"] = res
        out["is_set"] = is_set
    elif kind == "reads_forked":
        # a parent process builds the scheme object (and uses it once), then pre-forks two workers that share this very object:
        # each encrypts the same (key, database) and records which slots its searches read
        loader = load(job["scheme"])
        cobj = loader.SSEConfig(json.loads(json.dumps(job["cfg"])))
        sch = loader.SSEScheme(json.loads(json.dumps(job["cfg"])))
        key = loader.SSEKey.deserialize(B(job["key_hex"]), cobj)
        db = {B(k): [B(x) for x in v] for k, v in job["db"]}
        sch.EDBSetup(key, db)
        outs = []
        for i in range(2):
            r, w = os.pipe()
            pid = os.fork()
            if pid == 0:
                os.close(r)
                try:
                    data = json.dumps(recorded_reads(job["scheme"], sch, key, db, sch.EDBSetup(key, db))).encode()
                except BaseException as e:  # noqa
                    data = json.dumps({"exception": "%s: %s" % (type(e).__name__, e)}).encode()
                with os.fdopen(w, "wb") as f:
                    f.write(data)
                os._exit(0)
            os.close(w)
            with os.fdopen(r, "rb") as f:
                outs.append(json.loads(f.read().decode() or "null"))
            os.waitpid(pid, 0)
        out["reads_list"] = outs
    elif kind == "reads":
        sch, key, db, edb = do_setup(job)
        out["reads"] = recorded_reads(job["scheme"], sch, key, db, edb)
    else:
        raise ValueError(kind)
    with open(sys.argv[2], "w") as f:
        json.dump(out, f)


if __name__ == "__main__":
    try:
        main()
    except Exception as e:  # an exception of the library inside the job is a result, not a crash of the harness
        import traceback
        tb = traceback.extract_tb(e.__traceback__)
        where = next(("%s:%s" % (fr.filename.split("/")[-1], fr.name) for fr in reversed(tb) if "/verif/" not in fr.filename), "?")
        with open(sys.argv[2], "w") as f:
            json.dump({"exception": "%s: %s [%s]" % (type(e).__name__, e, where)}, f)

"""One-shot, SURVIVABLE file-system fault injector (C10's `faulty` events).

Where vlib/faultfs.py ends the process at a chosen mutation (C13's crash model), this injector makes the n-th mutation
below a root directory FAIL with OSError(ENOSPC) and lets the process live: the error travels up through the code under
test like a full disk, a quota or an EIO would.  A failing `write` first stores half of the data (a short write before
the error).  The fault fires once and the injector disarms itself, so everything the code does afterwards (its cleanup,
later requests) meets a healthy file system again.

Installed into the running check process (builtins.open for write modes, os.mkdir / os.replace / os.rename / os.unlink /
os.fsync); inert unless armed; paths outside the root and below <root>/log are never touched.
"""
import builtins
import errno
import os

_REAL = {"open": builtins.open, "mkdir": os.mkdir, "unlink": os.unlink, "replace": os.replace, "rename": os.rename,
         "fsync": os.fsync}

_INJ = None


class Injector:
    def __init__(self):
        self.root = None
        self.fail_at = None
        self.counter = 0
        self.fired = None   # (index, kind, relative path) of the mutation that was made to fail
        self.seen = []

    def arm(self, root, fail_at):
        self.root = os.path.realpath(root)
        self.fail_at, self.counter, self.fired, self.seen = fail_at, 0, None, []

    def disarm(self):
        self.fail_at = None

    def relevant(self, path):
        if self.fail_at is None or isinstance(path, int):
            return None
        try:
            p = os.path.realpath(os.fspath(path))
        except TypeError:
            return None
        if not p.startswith(self.root + os.sep):
            return None
        rel = p[len(self.root) + 1:]
        if rel == "log" or rel.startswith("log" + os.sep):
            return None
        return rel

    def hit(self, kind, path):
        """True when this mutation must fail"""
        rel = self.relevant(path)
        if rel is None:
            return False
        idx = self.counter
        self.counter += 1
        self.seen.append((kind, rel))
        if idx == self.fail_at:
            self.fired = (idx, kind, rel)
            self.fail_at = None  # one shot
            return True
        return False


def _enospc(path):
    return OSError(errno.ENOSPC, os.strerror(errno.ENOSPC), os.fspath(path) if not isinstance(path, int) else None)


class FileProxy:
    def __init__(self, inj, f, path):
        self._inj, self._f, self._path = inj, f, path

    def write(self, data):
        if self._inj.hit("write", self._path):
            self._f.write(data[:len(data) // 2])
            self._f.flush()
            raise _enospc(self._path)
        return self._f.write(data)

    def flush(self):
        if self._inj.hit("flush", self._path):
            raise _enospc(self._path)
        return self._f.flush()

    def close(self):
        if not self._f.closed and self._inj.hit("close", self._path):
            self._f.close()
            raise _enospc(self._path)
        return self._f.close()

    def __enter__(self):
        return self

    def __exit__(self, *a):
        self.close()
        return False

    def __getattr__(self, name):
        return getattr(self._f, name)

    def __iter__(self):
        return iter(self._f)


def injector():
    """installs the wrappers once per process and returns the (disarmed) injector"""
    global _INJ
    if _INJ is not None:
        return _INJ
    inj = _INJ = Injector()
    fd_paths = {}

    def open_(file, mode="r", *a, **kw):
        if inj.fail_at is not None and isinstance(mode, str) and any(c in mode for c in "wax+") and inj.relevant(file) is not None:
            if inj.hit("open_w", file):
                raise _enospc(file)
            f = _REAL["open"](file, mode, *a, **kw)
            try:
                fd_paths[f.fileno()] = file
            except Exception:
                pass
            return FileProxy(inj, f, file)
        return _REAL["open"](file, mode, *a, **kw)

    def mkdir(path, *a, **kw):
        if inj.hit("mkdir", path):
            raise _enospc(path)
        return _REAL["mkdir"](path, *a, **kw)

    def unlink(path, *a, **kw):
        if inj.hit("unlink", path):
            raise OSError(errno.EIO, os.strerror(errno.EIO), os.fspath(path))
        return _REAL["unlink"](path, *a, **kw)

    def replace(src, dst, *a, **kw):
        if inj.hit("replace", dst):
            raise _enospc(dst)
        return _REAL["replace"](src, dst, *a, **kw)

    def rename(src, dst, *a, **kw):
        if inj.hit("rename", dst):
            raise _enospc(dst)
        return _REAL["rename"](src, dst, *a, **kw)

    def fsync(fd):
        p = fd_paths.get(fd)
        if p is not None and inj.fail_at is not None and inj.hit("fsync", p):
            raise OSError(errno.EIO, os.strerror(errno.EIO))
        return _REAL["fsync"](fd)

    builtins.open = open_
    os.mkdir = mkdir
    os.unlink = unlink
    os.replace = replace
    os.rename = rename
    os.fsync = fsync
    return inj

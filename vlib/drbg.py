"""Deterministic entropy for the code under test.

The library draws randomness from os.urandom (keys, IVs, fillers, dummy keywords, salts) and from the global
`random` module (slot permutations, bucket choice, shuffles).  Inside `entropy(seed)` both are a pure function of
`seed`, which is part of the generated case, so a replay reproduces the exact bytes.  The DRBG is SHA-256 in
counter mode and never repeats an output block, so freshness checks stay meaningful; a mutant that stops *asking*
for entropy (constant IV, IV derived from the message) is still caught because the repeated value comes from the
code, not from the DRBG.
"""
import contextlib
import hashlib
import os
import random

_REAL_URANDOM = os.urandom


class DRBG:
    def __init__(self, seed):
        self.key = hashlib.sha256(b"ssepy-verif-drbg:" + repr(seed).encode()).digest()
        self.ctr = 0
        self.calls = 0
        self.bytes_out = 0

    def read(self, n):
        self.calls += 1
        n = int(n)
        if n < 0:
            raise ValueError("negative argument not allowed")
        out = bytearray()
        while len(out) < n:
            out += hashlib.sha256(self.key + self.ctr.to_bytes(16, "big")).digest()
            self.ctr += 1
        self.bytes_out += n
        return bytes(out[:n])


@contextlib.contextmanager
def entropy(seed):
    d = DRBG(seed)
    state = random.getstate()
    os.urandom = d.read
    random.seed(int.from_bytes(hashlib.sha256(b"rnd:" + repr(seed).encode()).digest()[:8], "big"))
    try:
        yield d
    finally:
        os.urandom = _REAL_URANDOM
        random.setstate(state)


KEY_PATTERNS = ["tail_lf", "tail_crlf", "tail_nul", "tail_space", "head_nul", "head_space", "ascii_digits", "pickle_frame", "tail_pad16"]


@contextlib.contextmanager
def patterned(pattern):
    """inside this block every os.urandom(n) result (still DRBG output) gets structured CONTENT at its ends -- any byte string of
    the right length is a value KeyGen may return, so keys ending in a line break, a NUL, a blank, padding-like bytes ... are keys"""
    inner = os.urandom

    def read(n):
        b = bytearray(inner(n))
        n = len(b)
        if n == 0:
            return bytes(b)
        if pattern == "tail_lf":
            b[-1:] = b"\n"
        elif pattern == "tail_crlf" and n >= 2:
            b[-2:] = b"\r\n"
        elif pattern == "tail_nul":
            b[-min(n, 3):] = b"\x00" * min(n, 3)
        elif pattern == "tail_space":
            b[-min(n, 2):] = b" " * min(n, 2)
        elif pattern == "head_nul":
            b[:min(n, 2)] = b"\x00" * min(n, 2)
        elif pattern == "head_space":
            b[:1] = b" "
        elif pattern == "ascii_digits":
            b[:] = bytes(0x30 + (x % 10) for x in b)
        elif pattern == "pickle_frame" and n >= 4:
            b[:3] = b"\x80\x04\x95"
            b[-1:] = b"."
        elif pattern == "tail_pad16":
            k = min(n, 16)
            b[-k:] = bytes([k]) * k
        return bytes(b)
    os.urandom = read
    try:
        yield
    finally:
        os.urandom = inner


def stream(seed, label=b""):
    """Independent deterministic byte source for harness-side content (keywords, identifiers)."""
    return DRBG((seed, label))

"""Deterministic entropy for the code under test.

The library draws randomness from os.urandom (keys, IVs, fillers, dummy keywords, salts) and from the global
`random` module (slot permutations, bucket choice, shuffles).  Inside `entropy(seed)` both are a pure function of
`seed`, which is part of the generated case, so a replay reproduces the exact bytes.  The DRBG is SHA-256 in
counter mode and never repeats an output block, so freshness checks stay meaningful; a mutant that stops *asking*
for entropy (constant IV, IV derived from the message) is still caught because the repeated value comes from the
code, not from the DRBG.
"""
import contextlib
import hashlib
import os
import random

_REAL_URANDOM = os.urandom


class DRBG:
    def __init__(self, seed):
        self.key = hashlib.sha256(b"ssepy-verif-drbg:" + repr(seed).encode()).digest()
        self.ctr = 0
        self.calls = 0
        self.bytes_out = 0

    def read(self, n):
        self.calls += 1
        n = int(n)
        if n < 0:
            raise ValueError("negative argument not allowed")
        out = bytearray()
        while len(out) < n:
            out += hashlib.sha256(self.key + self.ctr.to_bytes(16, "big")).digest()
            self.ctr += 1
        self.bytes_out += n
        return bytes(out[:n])


@contextlib.contextmanager
def entropy(seed):
    d = DRBG(seed)
    state = random.getstate()
    os.urandom = d.read
    random.seed(int.from_bytes(hashlib.sha256(b"rnd:" + repr(seed).encode()).digest()[:8], "big"))
    try:
        yield d
    finally:
        os.urandom = _REAL_URANDOM
        random.setstate(state)


def stream(seed, label=b""):
    """Independent deterministic byte source for harness-side content (keywords, identifiers)."""
    return DRBG((seed, label))

"""Frontend rig: real client service + real server handler over a loopback websocket, in one process.

* HOME is redirected to a scratch directory BEFORE anything from `frontend` / `toolkit.logger` is imported (both file
  managers and the logger freeze Path.home()/.sse at import time).
* The server's `asyncio.sleep(1)` inside clean_service_when_close_connection only throttles reconnects; the rig replaces the
  module attribute `services_manager.asyncio` with a shim whose sleep returns immediately (harness side, no repo change).
* Between cases the scratch ~/.sse is wiped (except log/) and the module-global ServicesManager is re-created.
"""
import asyncio
import contextlib
import logging
import os
import pickle
import shutil
import sys
import tempfile

_STATE = {"home": None, "ready": False}


def ensure_home():
    if _STATE["home"] is None:
        for m in list(sys.modules):
            if m.startswith("frontend") or m == "toolkit.logger.logger":
                raise RuntimeError("frontend imported before the rig redirected HOME")
        home = tempfile.mkdtemp(prefix="ssepy-home-")
        os.environ["HOME"] = home
        _STATE["home"] = home
        import atexit
        atexit.register(lambda: shutil.rmtree(home, ignore_errors=True))
    return _STATE["home"]


class _AsyncioShim:
    """stands in for the `asyncio` module inside the server-side modules (services_manager, service, connector): everything
    passes through to asyncio except the two sources of TIME -- sleep() and the timeout of wait_for() -- which belong to the
    harness: sleep parks on the installed coroutine function, a wait_for timeout fires only when the harness's timer
    controller says so (without a controller no timeout ever fires: cases finish within milliseconds of real time)"""

    def __init__(self, sleep, timers=None):
        self._sleep = sleep
        self._timers = timers

    def __getattr__(self, name):
        return getattr(asyncio, name)

    async def sleep(self, delay, result=None):
        await self._sleep(delay)
        return result

    async def wait_for(self, aw, timeout):
        if timeout is None:
            return await aw
        if self._timers is None:
            return await aw   # nothing in a case takes long enough for a real timeout to matter
        return await self._timers.wait_for(aw, timeout)

    async def wait(self, fs, *, timeout=None, return_when=asyncio.ALL_COMPLETED):
        if timeout is None or self._timers is None:
            return await asyncio.wait(fs, timeout=timeout, return_when=return_when)
        return await self._timers.wait(fs, return_when)


class Timers:
    """virtual timeouts: a wait_for(aw, t) registered here times out exactly when fire_one() is called while it is pending
    (real time is never consulted) -- 'the earlier connection stayed open for longer than t' becomes a schedulable event"""

    def __init__(self):
        self.pending = []

    async def wait_for(self, aw, timeout):
        loop = asyncio.get_running_loop()
        task = asyncio.ensure_future(aw)
        fire = loop.create_future()
        self.pending.append(fire)
        try:
            await asyncio.wait([task, fire], return_when=asyncio.FIRST_COMPLETED)
        except asyncio.CancelledError:
            task.cancel()
            raise
        finally:
            if fire in self.pending:
                self.pending.remove(fire)
        if task.done():
            if not fire.done():
                fire.cancel()
            return task.result()
        task.cancel()
        with contextlib.suppress(BaseException):
            await task
        raise asyncio.TimeoutError()

    async def wait(self, fs, return_when):
        """asyncio.wait(fs, timeout=t): returns (done, pending) when the condition is met or when fire_one() says the time is up"""
        loop = asyncio.get_running_loop()
        fs = [asyncio.ensure_future(f) for f in fs]
        fire = loop.create_future()
        self.pending.append(fire)
        try:
            while True:
                done = {f for f in fs if f.done()}
                if fire.done() or (return_when == asyncio.FIRST_COMPLETED and done) or len(done) == len(fs) or (
                        return_when == asyncio.FIRST_EXCEPTION and any(f.done() and not f.cancelled() and f.exception() for f in fs)):
                    return done, set(fs) - done
                await asyncio.wait([f for f in fs if not f.done()] + [fire], return_when=asyncio.FIRST_COMPLETED)
        finally:
            if fire in self.pending:
                self.pending.remove(fire)
            if not fire.done():
                fire.cancel()

    def fire_one(self):
        while self.pending:
            fut = self.pending.pop(0)
            if not fut.done():
                fut.set_result(None)
                return True
        return False


async def _fast_sleep(delay):
    await asyncio.sleep(0)


def modules():
    """imports the frontend (once) with HOME redirected and logging silenced; returns a namespace of the modules"""
    home = ensure_home()
    import global_config
    import frontend.server.connector as connector
    import frontend.server.services.services_manager as services_manager
    import frontend.server.services.service as server_service
    import frontend.server.services.file_manager as server_fm
    import frontend.client.services.service as client_service
    import frontend.client.services.file_manager as client_fm
    if not _STATE["ready"]:
        for name in ("sse_server", "sse_client", "sse"):
            lg = logging.getLogger(name)
            for h in list(lg.handlers):
                lg.removeHandler(h)
                with contextlib.suppress(Exception):
                    h.close()
            lg.addHandler(logging.NullHandler())
            lg.propagate = False
        logging.getLogger("websockets").setLevel(logging.CRITICAL)
        logging.getLogger("websockets.server").setLevel(logging.CRITICAL)
        logging.getLogger("asyncio").setLevel(logging.CRITICAL)
        _STATE["sleep"] = _fast_sleep
        _STATE["timers"] = None
        _STATE["ready"] = True
        _install_shim(services_manager, server_service, connector)

    class NS:
        pass
    ns = NS()
    ns.home = home
    ns.sse_dir = os.path.join(home, ".sse")
    ns.client_dir = os.path.join(home, ".sse", "client")
    ns.global_config = global_config
    ns.connector = connector
    ns.services_manager = services_manager
    ns.server_service = server_service
    ns.server_fm = server_fm
    ns.client_service = client_service
    ns.client_fm = client_fm
    return ns


def _install_shim(*mods):
    shim = _AsyncioShim(_STATE.get("sleep", _fast_sleep), _STATE.get("timers"))
    for m in mods:
        if getattr(m, "asyncio", None) is not None:
            m.asyncio = shim


def set_sleep(fn, timers=None):
    """install another coroutine function as the server's sleep (a gate owned by the driver) and, optionally, a controller of
    wait_for timeouts"""
    ns = modules()
    _STATE["sleep"] = fn
    _STATE["timers"] = timers
    _install_shim(ns.services_manager, ns.server_service, ns.connector)


def hard_restart_server_state():
    """what a server PROCESS restart does: every server-side module starts from its import-time state again (module-level caches,
    registries, counters are gone), on the same directory"""
    import importlib
    ns = modules()
    for m in (ns.server_fm, ns.server_service, ns.services_manager, ns.connector):
        importlib.reload(m)
    _install_shim(ns.services_manager, ns.server_service, ns.connector)
    for name in ("sse_server",):
        lg = logging.getLogger(name)
        for h in list(lg.handlers):
            if not isinstance(h, logging.NullHandler):
                lg.removeHandler(h)
                with contextlib.suppress(Exception):
                    h.close()


def wipe():
    """remove every service directory on both sides (log/ is kept), re-create the module-global manager"""
    ns = modules()
    for name in os.listdir(ns.sse_dir):
        p = os.path.join(ns.sse_dir, name)
        if name == "log":
            continue
        if name == "client":
            for n2 in os.listdir(p):
                q = os.path.join(p, n2)
                shutil.rmtree(q, ignore_errors=True) if os.path.isdir(q) else os.unlink(q)
            continue
        shutil.rmtree(p, ignore_errors=True) if os.path.isdir(p) else os.unlink(p)
    os.makedirs(ns.client_dir, exist_ok=True)
    restart_server_state()
    # the sname mapping is cached in a closure of service_name_handler; reload it lazily by resetting the module
    with contextlib.suppress(Exception):
        import importlib
        import frontend.client.services.service_name_handler as snh
        snh.read_service_mapping, snh.write_service_mapping = snh._get_service_mapping_read_and_write_function()


def restart_server_state():
    """what a server restart does to in-memory state: a brand-new ServicesManager (the directory is kept)"""
    ns = modules()
    ns.connector._sse_service_manager = ns.services_manager.ServicesManager()


class Server:
    """the real connection handler served on an ephemeral loopback port"""

    def __init__(self):
        self.server = None
        self.port = None

    async def start(self):
        import websockets
        ns = modules()
        self.server = await websockets.serve(ns.connector.handler, "127.0.0.1", 0, max_size=None)
        self.port = self.server.sockets[0].getsockname()[1]
        ns.global_config.ClientConfig.SERVER_URI = "ws://127.0.0.1:%d" % self.port
        # the client module copied the class object, not the URI: same object, attribute visible
        return self

    async def stop(self, patience=12):
        """stop serving; never raises and never blocks for long: connection handlers that do not finish (a broken tree may leave
        one waiting for ever) are cancelled and their transports aborted -- teardown must not turn a verdict into a harness error"""
        if self.server is None:
            return
        server, self.server = self.server, None
        server.close()
        try:
            await asyncio.wait_for(server.wait_closed(), patience)
            return
        except (asyncio.TimeoutError, Exception):
            pass
        for ws in list(getattr(server, "websockets", []) or []):
            with contextlib.suppress(Exception):
                if getattr(ws, "handler_task", None) is not None:
                    ws.handler_task.cancel()
                if getattr(ws, "transport", None) is not None:
                    ws.transport.abort()
        with contextlib.suppress(BaseException):
            await asyncio.wait_for(server.wait_closed(), 3)

    async def restart(self, hard=False):
        """stop listening, forget all in-memory state, listen again (new port); hard=True also resets every server module to its
        import-time state (what a new server process would have)"""
        await self.stop()
        if hard:
            hard_restart_server_state()
        else:
            restart_server_state()
        await self.start()

    @property
    def uri(self):
        return "ws://127.0.0.1:%d" % self.port


class RawClient:
    """a raw protocol client: pickled dict messages over a websocket, as the real client sends them"""

    def __init__(self, uri, sid):
        self.uri = uri
        self.sid = sid
        self.ws = None

    async def connect(self, send_init=True):
        import websockets
        self.ws = await websockets.connect(self.uri, max_size=None)
        if send_init:
            await self.ws.send(pickle.dumps({"type": "init", "sid": self.sid}))
        return self

    async def send(self, msg_type, content, sid=None, **extra):
        d = {"type": msg_type, "sid": self.sid if sid is None else sid, "content": content}
        d.update(extra)
        await self.ws.send(pickle.dumps(d))

    async def recv(self, timeout=10.0):
        """next message as a dict, or ('closed', code) when the server closed the connection"""
        import websockets
        try:
            raw = await asyncio.wait_for(self.ws.recv(), timeout)
        except websockets.ConnectionClosed as e:
            return {"type": "__closed__", "code": getattr(e, "code", None) or getattr(getattr(e, "rcvd", None), "code", None)}
        except asyncio.TimeoutError:
            return {"type": "__timeout__"}
        d = pickle.loads(raw)
        if isinstance(d.get("content"), (bytes, bytearray)) and d.get("type") in ("init", "config", "upload_edb"):
            with contextlib.suppress(Exception):
                d["decoded"] = pickle.loads(d["content"])
        return d

    async def close(self):
        if self.ws is not None:
            with contextlib.suppress(Exception):
                await self.ws.close()


def run(coro):
    """run one case on a fresh event loop"""
    return asyncio.run(coro)

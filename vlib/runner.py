"""Shared runner: environment, sharding, seeds, evidence, replay files, known findings.

Every property module (props/cNN.py) exposes

    ID, LEVEL ("exploration" | "fault_enumeration"), RULE (str), ASSUMPTIONS (list of str)
    shards(tier) -> list of JSON-able shard specs
    run_shard(spec, seed, tier) -> ShardResult   (runs inside a spawned worker process)
    replay(case) -> None | str                    (re-executes one case WITHOUT Hypothesis; returns
                                                   a violation message or None)

A *case* is a plain JSON-able dict (bytes are hex strings) that fully determines one execution of the real code
(including the entropy seed), so that a replay file is self-contained.
"""
import hashlib
import json
import multiprocessing
import os
import sys
import time
import traceback

VERIF_DIR = os.path.dirname(os.path.dirname(os.path.abspath(__file__)))
REPO_DIR = os.environ.get("VERIF_REPO", "/repo")
EVIDENCE_DIR = os.environ.get("VERIF_EVIDENCE_DIR") or os.path.join(VERIF_DIR, "evidence")
REPLAY_DIR = os.path.join(VERIF_DIR, "replays")
OUT_DIR = os.environ.get("VERIF_OUT_DIR") or os.path.join(VERIF_DIR, "out")
KNOWN_FINDINGS_FILE = os.path.join(VERIF_DIR, "known_findings.json")


class HarnessError(Exception):
    """Problem in the harness itself (exit 2), never a verdict about the code under test."""


class Violation(Exception):
    """The real code contradicted the property on a concrete case."""

    def __init__(self, msg, bucket=None):
        super().__init__(msg)
        self.bucket = bucket or msg.split(":")[0][:80]


# ----------------------------------------------------------------------------------------------------------
# environment
# ----------------------------------------------------------------------------------------------------------
def setup_environment():
    """Called first thing in every process (parent and workers)."""
    if REPO_DIR not in sys.path:
        sys.path.insert(0, REPO_DIR)
    if VERIF_DIR not in sys.path:
        sys.path.insert(1, VERIF_DIR)
    deps = os.path.join(VERIF_DIR, ".deps")
    if os.path.isdir(deps) and deps not in sys.path:
        sys.path.append(deps)
    sys.dont_write_bytecode = True
    os.environ.setdefault("PYTHONDONTWRITEBYTECODE", "1")


def env_seed():
    try:
        return int(os.environ.get("VERIF_SEED", "1"))
    except ValueError:
        return 1


def derive_seed(*parts):
    h = hashlib.sha256(repr(parts).encode()).digest()
    return int.from_bytes(h[:8], "big")


def fingerprint(obj):
    return hashlib.sha256(json.dumps(obj, sort_keys=True, default=_json_default).encode()).hexdigest()[:24]


def _json_default(o):
    if isinstance(o, (bytes, bytearray)):
        return {"__hex__": bytes(o).hex()}
    if isinstance(o, (set, frozenset)):
        return sorted(o, key=repr)
    if isinstance(o, tuple):
        return list(o)
    return repr(o)


# ----------------------------------------------------------------------------------------------------------
# shard results
# ----------------------------------------------------------------------------------------------------------
class ShardResult:
    MAX_SAMPLES = 4

    def __init__(self):
        self.evaluations = 0
        self.nontrivial = set()  # fingerprints of distinct non-trivial cases
        self.classes = {}
        self.samples = []
        self.violations = []  # list of {"case":..., "msg":..., "bucket":...}
        self.excluded_known = {}
        self.notes = []
        self.exhaustive = None  # None = n/a, True/False
        self.extra = {}
        self.harness_errors = []

    def count(self, case_fp_source=None, nontrivial=False, classes=(), sample=None):
        self.evaluations += 1
        for c in classes:
            self.classes[c] = self.classes.get(c, 0) + 1
        if nontrivial:
            fp = fingerprint(case_fp_source)
            if fp not in self.nontrivial:
                self.nontrivial.add(fp)
                if sample is not None and len(self.samples) < self.MAX_SAMPLES:
                    self.samples.append(sample)

    def cls(self, *classes):
        for c in classes:
            self.classes[c] = self.classes.get(c, 0) + 1

    def exclude(self, key):
        self.excluded_known[key] = self.excluded_known.get(key, 0) + 1

    def add_violation(self, case, msg, bucket=None):
        self.violations.append({"case": case, "msg": msg, "bucket": bucket or msg[:80]})

    def to_dict(self):
        return {
            "evaluations": self.evaluations, "nontrivial": sorted(self.nontrivial), "classes": self.classes,
            "samples": self.samples, "violations": self.violations, "excluded_known": self.excluded_known,
            "notes": self.notes, "exhaustive": self.exhaustive, "extra": self.extra,
            "harness_errors": self.harness_errors,
        }


def _run_in_optimized_child(args):
    """executes one shard in a child interpreter started with -O (PYTHONOPTIMIZE=1 in its environment, so that its own children
    inherit it) and returns the shard's result dictionary"""
    import subprocess
    import tempfile
    prop_name, spec, seed, tier = args
    d = tempfile.mkdtemp(prefix="ssepy-optshard-")
    try:
        with open(os.path.join(d, "in.json"), "w") as f:
            json.dump({"prop": prop_name, "spec": spec, "seed": seed, "tier": tier}, f, default=_json_default)
        here = os.path.dirname(os.path.dirname(os.path.abspath(__file__)))
        code = "import sys; sys.path.insert(0, %r); from vlib import runner; runner._optimized_child_main(%r)" % (here, d)
        env = dict(os.environ, PYTHONOPTIMIZE="1", PYTHONDONTWRITEBYTECODE="1")
        env.update(spec.get("_env") or {})    # further facts of the process environment a shard wants varied (e.g. the locale)
        p = subprocess.run([sys.executable, "-O", "-c", code], env=env, capture_output=True, text=True)
        out = os.path.join(d, "out.json")
        if not os.path.exists(out):
            raise HarnessError("the -O child of shard %r produced no result (exit %s): %s" % (spec, p.returncode, p.stderr[-800:]))
        with open(out) as f:
            return json.load(f)
    finally:
        import shutil
        shutil.rmtree(d, ignore_errors=True)


def _optimized_child_main(d):
    with open(os.path.join(d, "in.json")) as f:
        a = json.load(f)
    res = _worker((a["prop"], a["spec"], a["seed"], a["tier"]))
    tmp = os.path.join(d, "out.json.tmp")
    with open(tmp, "w") as f:
        json.dump(res, f, default=_json_default)
    os.replace(tmp, os.path.join(d, "out.json"))


def _worker(args):
    prop_name, spec, seed, tier = args
    setup_environment()
    t0 = time.time()
    if os.environ.get("VERIF_DEBUG_SHARDS"):
        sys.stderr.write("[shard start] %s %r\n" % (prop_name, spec.get("_label", spec) if isinstance(spec, dict) else spec))
        sys.stderr.flush()
    try:
        import importlib
        if isinstance(spec, dict) and spec.get("_py_optimize") and not sys.flags.optimize:
            return _run_in_optimized_child(args)
        mod = importlib.import_module("props." + prop_name)
        if isinstance(spec, dict) and spec.get("_scale"):
            from vlib import hyp as _hyp
            _hyp.SCALE = float(spec["_scale"])
        res = mod.run_shard(spec, seed, tier)
        if isinstance(spec, dict) and spec.get("_py_optimize"):
            res.classes["interpreter_started_with_-O"] = res.classes.get("interpreter_started_with_-O", 0) + res.evaluations
            for v in res.violations:
                if isinstance(v.get("case"), dict):
                    v["case"]["_py_optimize"] = True
                    if spec.get("_env"):
                        v["case"]["_env"] = spec["_env"]
                v["msg"] = str(v.get("msg")) + " [interpreter started with -O]"
        d = res.to_dict()
    except HarnessError as e:
        d = ShardResult().to_dict()
        d["harness_errors"].append("HarnessError in shard %r: %s" % (spec, e))
    except BaseException as e:  # noqa
        d = ShardResult().to_dict()
        d["harness_errors"].append("unexpected %s in shard %r: %s\n%s" % (type(e).__name__, spec, e,
                                                                            traceback.format_exc()))
    d["spec"] = spec
    d["wall_s"] = time.time() - t0
    if os.environ.get("VERIF_DEBUG_SHARDS"):
        sys.stderr.write("[shard end %.1fs] %s %r\n" % (d["wall_s"], prop_name, spec.get("_label", spec) if isinstance(spec, dict) else spec))
        sys.stderr.flush()
    return d


# ----------------------------------------------------------------------------------------------------------
# known findings
# ----------------------------------------------------------------------------------------------------------
def load_known_findings(prop_id):
    try:
        with open(KNOWN_FINDINGS_FILE) as f:
            data = json.load(f)
    except FileNotFoundError:
        return []
    return [e for e in data.get("findings", []) if e.get("property") == prop_id]


def known_entries(prop_id):
    return [e for e in load_known_findings(prop_id) if e.get("status") == "known"]


# ----------------------------------------------------------------------------------------------------------
# main driver
# ----------------------------------------------------------------------------------------------------------
def write_json(path, obj):
    os.makedirs(os.path.dirname(path), exist_ok=True)
    tmp = path + ".tmp%d" % os.getpid()
    with open(tmp, "w") as f:
        json.dump(obj, f, indent=1, default=_json_default, sort_keys=False)
        f.write("\n")
    os.replace(tmp, path)


def run_property(prop_name, tier, replay_path=None, jobs=None):
    setup_environment()
    import importlib
    mod = importlib.import_module("props." + prop_name)
    prop_id = mod.ID
    seed = env_seed()
    t0 = time.time()

    if replay_path:
        with open(replay_path) as f:
            doc = json.load(f)
        case = doc.get("case", doc)
        if isinstance(case, dict) and case.get("_py_optimize") and not sys.flags.optimize:
            # the case was found in an interpreter started with -O: replay it in one
            os.execve(sys.executable, [sys.executable] + sys.argv, dict(os.environ, PYTHONOPTIMIZE="1", **(case.get("_env") or {})))
        msg = mod.replay(case)
        if msg:
            print("replay: property %s VIOLATED on %s: %s" % (prop_id, replay_path, msg))
            print("VIOLATION property=%s replay=%s" % (prop_id, replay_path))
            return 1
        print("replay: property %s held on %s" % (prop_id, replay_path))
        return 0

    harness_errors = []
    violations = []  # (case, msg, bucket)
    known_lines = []

    # ---- replay tier: pinned regression inputs -------------------------------------------------------
    known = known_entries(prop_id)
    pinned_dir = os.path.join(REPLAY_DIR, prop_id)
    pinned = []
    if os.path.isdir(pinned_dir):
        for fn in sorted(os.listdir(pinned_dir)):
            if fn.endswith(".json"):
                pinned.append(os.path.join(pinned_dir, fn))
    pinned_run = 0
    known_confirmed = set()
    for path in pinned:
        with open(path) as f:
            doc = json.load(f)
        case = doc.get("case", doc)
        expect = doc.get("expect", "pass")
        try:
            msg = mod.replay(case)
        except HarnessError as e:
            harness_errors.append("replay %s: %s" % (path, e))
            continue
        pinned_run += 1
        if expect == "known":
            kid = doc.get("known_id")
            entry = next((e for e in known if e.get("id") == kid), None)
            if entry is None:
                # the finding is no longer listed as known: the pinned case must pass now
                if msg:
                    violations.append((case, msg, "pinned:" + os.path.basename(path), path))
            elif msg:
                known_confirmed.add(kid)
            # a listed known finding that no longer reproduces is silently fine (it may have been repaired)
        else:
            if msg:
                violations.append((case, msg, "pinned:" + os.path.basename(path), path))

    # ---- generated search --------------------------------------------------------------------------
    specs = mod.shards(tier)
    jobs = jobs or int(os.environ.get("VERIF_JOBS", "0")) or min(16, os.cpu_count() or 1)
    work = [(prop_name, spec, derive_seed(seed, prop_id, i), tier) for i, spec in enumerate(specs)]
    # The same search once more in interpreters started with -O (PYTHONOPTIMIZE=1: `assert` statements and `if __debug__` blocks
    # are compiled away; the workers' own children -- servers, clients, fresh interpreters -- inherit it): how the process was
    # started is not an input of any property.  By default every Hypothesis shard of a property is repeated that way with other seeds
    # and 30 % of its cases (all schemes stay covered); a module can name its own with OPTIMIZED_SHARDS(tier).
    if hasattr(mod, "OPTIMIZED_SHARDS"):
        opt_specs = list(mod.OPTIMIZED_SHARDS(tier))
    else:
        hyp_like = [s for s in specs if isinstance(s, dict) and s.get("kind") == "hyp"]
        opt_specs = [dict(s, _scale=0.3) for s in hyp_like] or [s for s in specs if isinstance(s, dict)][:2]
    opt_work = [(prop_name, dict(spec, _py_optimize=True), derive_seed(seed, prop_id, 1000 + i), tier) for i, spec in enumerate(opt_specs)]
    results = []
    work = work + opt_work      # an optimized shard is executed by its pool worker in a child interpreter started with -O
    if jobs == 1 or len(work) == 1:
        for w in work:
            results.append(_worker(w))
    else:
        ctx = multiprocessing.get_context("spawn")
        with ctx.Pool(min(jobs, len(work)), maxtasksperchild=1) as pool:
            for d in pool.imap_unordered(_worker, work, chunksize=1):
                results.append(d)
    for d in results:
        if isinstance(d["spec"], dict) and "_label" in d["spec"]:
            d["spec"] = d["spec"]["_label"]
    results.sort(key=lambda d: json.dumps(d["spec"], sort_keys=True, default=repr))

    evaluations = 0
    nontrivial = set()
    classes = {}
    samples = []
    excluded = {}
    notes = []
    extra = {}
    exhaustive_flags = []
    shard_summ = []
    for d in results:
        evaluations += d["evaluations"]
        nontrivial.update(d["nontrivial"])
        for k, v in d["classes"].items():
            classes[k] = classes.get(k, 0) + v
        for s in d["samples"]:
            if len(samples) < 8:
                samples.append(s)
        for k, v in d["excluded_known"].items():
            excluded[k] = excluded.get(k, 0) + v
        notes.extend(d["notes"])
        for k, v in d["extra"].items():
            if isinstance(v, (int, float)) and isinstance(extra.get(k, 0), (int, float)):
                extra[k] = extra.get(k, 0) + v
            else:
                extra.setdefault(k, v)
        exhaustive_flags.append(bool(d["exhaustive"]))
        harness_errors.extend(d["harness_errors"])
        for v in d["violations"]:
            violations.append((v["case"], v["msg"], v["bucket"], None))
        shard_summ.append({"spec": d["spec"], "evaluations": d["evaluations"], "wall_s": round(d["wall_s"], 2),
                           "violations": len(d["violations"])})

    # ---- known findings ----------------------------------------------------------------------------
    for e in known:
        if e.get("id") in known_confirmed or excluded.get(e.get("id"), 0) > 0:
            known_lines.append("KNOWN-FINDING: property=%s %s" % (prop_id, e.get("what", e.get("id"))))

    # ---- report ------------------------------------------------------------------------------------
    wall = time.time() - t0
    # de-duplicate violations by bucket, keep the smallest case per bucket
    by_bucket = {}
    for case, msg, bucket, path in violations:
        size = len(json.dumps(case, default=_json_default))
        if bucket not in by_bucket or size < by_bucket[bucket][0]:
            by_bucket[bucket] = (size, case, msg, path)
    vio_files = []
    for bucket, (size, case, msg, path) in sorted(by_bucket.items()):
        if path is None:
            path = os.path.join(OUT_DIR, "violations", "%s-%s.json" % (prop_id, fingerprint([bucket, case])[:12]))
            write_json(path, {"property": prop_id, "msg": msg, "bucket": bucket, "case": case,
                              "seed": seed, "tier": tier})
        vio_files.append((path, msg))

    coverage = {
        "evaluations": evaluations + pinned_run,
        "distinct_nontrivial": len(nontrivial),
        "rule": mod.RULE,
        "samples": samples if samples else [{"note": "no non-trivial sample recorded"}],
        "classes": dict(sorted(classes.items())),
        "pinned_replays_run": pinned_run,
        "excluded_known": excluded,
        "shards": shard_summ,
    }
    if exhaustive_flags and all(exhaustive_flags):
        coverage["exhaustive"] = True
    elif any(exhaustive_flags):
        coverage["exhaustive"] = False
        coverage["exhaustive_subspace"] = True  # some shards enumerated a finite sub-space completely (see *_bounds)
    if extra:
        coverage.update(extra)
    if notes:
        coverage["notes"] = notes[:20]
    evidence = {
        "property_id": prop_id, "tier": tier, "seed": seed, "level": mod.LEVEL, "coverage": coverage,
        "assumptions": list(getattr(mod, "ASSUMPTIONS", [])), "wall_s": round(wall, 2),
        "violations": len(vio_files),
    }
    if harness_errors:
        evidence["coverage"]["harness_errors"] = harness_errors[:10]
    write_json(os.path.join(EVIDENCE_DIR, prop_id + ".json"), evidence)

    print("%s tier=%s seed=%d evaluations=%d distinct_nontrivial=%d wall=%.1fs" %
          (prop_id, tier, seed, coverage["evaluations"], coverage["distinct_nontrivial"], wall))
    for line in known_lines:
        print(line)
    if harness_errors:
        for h in harness_errors[:10]:
            print("HARNESS-ERROR: " + h.strip().replace("\n", "\n    "), file=sys.stderr)
    if vio_files:
        for path, msg in vio_files:
            print("  violation: %s" % msg.replace("\n", " ")[:600])
            print("VIOLATION property=%s replay=%s" % (prop_id, path))
        return 1
    if harness_errors:
        return 2
    return 0

"""File-system fault injector for crash-point enumeration (C13).

Installed in a CHILD process before anything from `frontend` is imported.  It wraps os.mkdir, builtins.open (write
modes), the returned file's write/close, os.unlink, os.replace/os.rename and shutil.rmtree for paths below a root
(the scratch ~/.sse, log/ excluded), numbers the mutations performed while it is *armed*, appends each to an event log
(flushed immediately) and, at the requested index, ends the process with os._exit(137) -- no finally blocks, no flushing
of Python-level buffers: exactly what `kill -9` does.  mode 'torn' applies to a write event: the first half of the data
is written and flushed to disk before the exit.
"""
import builtins
import os
import shutil

_REAL = {"open": builtins.open, "mkdir": os.mkdir, "unlink": os.unlink, "replace": os.replace, "rename": os.rename,
         "rmtree": shutil.rmtree, "fsync": os.fsync}


class Injector:
    def __init__(self, root, log_path):
        self.root = os.path.realpath(root)
        self.log = _REAL["open"](log_path, "a", buffering=1)
        self.armed = False
        self.scope = ""  # label of the operation being executed (goes into the log)
        self.counter = 0
        self.crash_at = None
        self.crash_mode = "before"

    def relevant(self, path):
        try:
            p = os.path.realpath(os.fspath(path))
        except TypeError:
            return None
        if not p.startswith(self.root + os.sep):
            return None
        rel = p[len(self.root) + 1:]
        if rel.startswith("log" + os.sep) or rel == "log":
            return None
        return rel

    def hit(self, kind, path, size=0):
        """returns 'torn' when this event must be torn, None otherwise; may not return at all"""
        rel = self.relevant(path)
        if rel is None or not self.armed:
            return None
        idx = self.counter
        self.counter += 1
        self.log.write("%d\t%s\t%s\t%s\t%d\n" % (idx, self.scope, kind, rel, size))
        if self.crash_at is not None and idx == self.crash_at:
            if self.crash_mode == "torn" and kind == "write":
                return "torn"
            if self.crash_mode == "after" and kind == "open_w":
                return "after"   # the caller performs the open (which may truncate the file) and then dies
            self.log.write("CRASH before %d\n" % idx)
            self.log.flush()
            os._exit(137)
        return None

    def die_after(self, idx):
        self.log.write("CRASH after %d\n" % idx)
        self.log.flush()
        os._exit(137)

    def die(self, idx):
        self.log.write("CRASH torn %d\n" % idx)
        self.log.flush()
        os._exit(137)


class FileProxy:
    def __init__(self, inj, f, path):
        self._inj, self._f, self._path = inj, f, path

    def write(self, data):
        r = self._inj.hit("write", self._path, len(data))
        if r == "torn":
            half = data[:len(data) // 2]
            self._f.write(half)
            self._f.flush()
            try:
                _REAL["fsync"](self._f.fileno())
            except Exception:
                pass
            self._inj.die(self._inj.counter - 1)
        return self._f.write(data)

    def flush(self):
        self._inj.hit("flush", self._path)
        return self._f.flush()

    def close(self):
        if not self._f.closed:
            self._inj.hit("close", self._path)
        return self._f.close()

    def __enter__(self):
        return self

    def __exit__(self, *a):
        self.close()
        return False

    def __getattr__(self, name):
        return getattr(self._f, name)

    def __iter__(self):
        return iter(self._f)


def install(root, log_path):
    inj = Injector(root, log_path)

    def open_(file, mode="r", *a, **kw):
        if isinstance(mode, str) and any(c in mode for c in "wax+") and not isinstance(file, int):
            rel = inj.relevant(file)
            if rel is not None and inj.armed:
                r = inj.hit("open_w", file)
                f = _REAL["open"](file, mode, *a, **kw)
                if r == "after":
                    # whatever fills the file afterwards may bypass write() (sendfile, another descriptor): the moment right after
                    # the open -- file created or truncated, nothing in it -- is a crash point of its own
                    inj.die_after(inj.counter - 1)
                return FileProxy(inj, f, file)
        return _REAL["open"](file, mode, *a, **kw)

    def mkdir(path, *a, **kw):
        inj.hit("mkdir", path)
        return _REAL["mkdir"](path, *a, **kw)

    def unlink(path, *a, **kw):
        inj.hit("unlink", path)
        return _REAL["unlink"](path, *a, **kw)

    def replace(src, dst, *a, **kw):
        inj.hit("replace", dst)
        return _REAL["replace"](src, dst, *a, **kw)

    def rename(src, dst, *a, **kw):
        inj.hit("rename", dst)
        return _REAL["rename"](src, dst, *a, **kw)

    def rmtree(path, *a, **kw):
        inj.hit("rmtree", path)
        return _REAL["rmtree"](path, *a, **kw)

    builtins.open = open_
    os.mkdir = mkdir
    os.unlink = unlink
    os.replace = replace
    os.rename = rename
    shutil.rmtree = rmtree
    return inj


def read_log(path):
    out, crashed = [], None
    try:
        with _REAL["open"](path) as f:
            for line in f:
                line = line.rstrip("\n")
                if line.startswith("CRASH"):
                    crashed = line
                    continue
                parts = line.split("\t")
                if len(parts) == 5:
                    out.append({"idx": int(parts[0]), "scope": parts[1], "kind": parts[2], "path": parts[3], "size": int(parts[4])})
    except FileNotFoundError:
        pass
    return out, crashed

"""Boilerplate for 'one generated case -> run_case(case) raises Violation' properties."""
from vlib import hyp
from vlib.runner import ShardResult, Violation, HarnessError


def make_body(mod):
    def body(case, res):
        res.count(mod.fingerprint_of(case) if hasattr(mod, "fingerprint_of") else case,
                  mod.is_nontrivial(case), mod.classes_of(case), sample=case)
        mod.run_case(case)
    return body


def run_enumeration(res, mod, cases, cls=None, nontrivial=None):
    """Runs explicit cases, collecting the first violation per bucket (search continues past a failure)."""
    first = {}
    for case in cases:
        nt = mod.is_nontrivial(case) if nontrivial is None else nontrivial
        res.count(mod.fingerprint_of(case) if hasattr(mod, "fingerprint_of") else case, nt,
                  (mod.classes_of(case) if cls is None else cls), sample=case)
        try:
            mod.run_case(case)
        except Violation as v:
            if v.bucket not in first:
                first[v.bucket] = (case, str(v))
    for bucket, (case, msg) in first.items():
        res.add_violation(case, msg, bucket)


def replay(mod, case):
    try:
        mod.run_case(case)
    except Violation as v:
        return str(v)
    return None


def fuzz_stage(res, modname, seed, runs, timeout=1500):
    """Coverage-guided second driver (atheris on the same Hypothesis strategy); never the sole decider."""
    import json, os, subprocess, sys, tempfile
    here = os.path.dirname(os.path.dirname(os.path.abspath(__file__)))
    env = dict(os.environ)
    env["PYTHONPATH"] = os.pathsep.join([os.path.join(here, ".deps")] + ([env["PYTHONPATH"]] if env.get("PYTHONPATH") else []))
    probe = subprocess.run([sys.executable, "-c", "import atheris"], env=env, capture_output=True, text=True)
    if probe.returncode != 0:
        res.notes.append("atheris unavailable, fuzz stage skipped")
        res.extra["fuzz_executions"] = 0
        return
    with tempfile.TemporaryDirectory(prefix="ssepyfuzz") as td:
        out = os.path.join(td, "out.json")
        cmd = [sys.executable, os.path.join(here, "vlib", "fuzz_driver.py"), modname, out, str(seed % (2 ** 31)), str(runs)]
        try:
            p = subprocess.run(cmd, cwd=td, env=env, capture_output=True, text=True, timeout=timeout)
            err = p.stderr[-400:]
        except subprocess.TimeoutExpired:
            err = "timeout (inconclusive)"
        if os.path.exists(out):
            d = json.load(open(out))
            res.evaluations += d["executions"]
            res.extra["fuzz_executions"] = d["executions"]
            for v in d["violations"]:
                res.add_violation(v["case"], v["msg"], v["bucket"])
        else:
            res.notes.append("fuzz driver produced no output: %s" % err)

"""Hypothesis driver: collect-then-shrink search with exception bucketing.

search(res, strategy, body, seed, n) runs `body(case, res)` on n generated cases.  `body` raises
runner.Violation when the real code contradicts the property on `case`; every other exception escaping `body` is a
harness problem (reported as such, exit 2), never a verdict.  Phase 1 does not stop at the first failure: it
records the first case of every failure bucket.  Phase 2 re-runs the same seeded generation once per bucket
(at most MAX_BUCKETS) raising only for that bucket, so Hypothesis shrinks each root cause to a minimal case.
"""
import os
import time
import traceback

import hypothesis
from hypothesis import HealthCheck, Phase, given, settings

from vlib.runner import HarnessError, ShardResult, Violation

MAX_BUCKETS = 3
# shrinking is best effort: after this many seconds per shard the smallest failing case found so far is reported as it is
# (the verdict never depends on the clock, only how small the reported reproduction is)
SHRINK_BUDGET_S = float(os.environ.get("VERIF_SHRINK_BUDGET", "90"))


def _settings(n, phases):
    return settings(max_examples=n, deadline=None, database=None, derandomize=False,
                    report_multiple_bugs=False, print_blob=False, verbosity=hypothesis.Verbosity.quiet,
                    suppress_health_check=[HealthCheck.too_slow, HealthCheck.data_too_large,
                                           HealthCheck.large_base_example],
                    phases=phases)


SCALE = 1.0   # set by the runner for shards that are repetitions of others (e.g. under -O): fewer cases each


def search(res, strategy, body, seed, n, shrink=True):
    n = max(10, int(n * SCALE)) if SCALE != 1.0 else n
    buckets = {}

    @hypothesis.seed(seed)
    @_settings(n, [Phase.generate])
    @given(strategy)
    def collect(case):
        try:
            body(case, res)
        except Violation as v:
            if v.bucket not in buckets:
                buckets[v.bucket] = (case, str(v))

    try:
        collect()
    except hypothesis.errors.FailedHealthCheck as e:
        raise HarnessError("hypothesis health check: %s" % e)
    except (hypothesis.errors.Flaky, hypothesis.errors.FlakyFailure) as e:  # pragma: no cover
        raise HarnessError("flaky harness: %s" % e)

    t_end = time.monotonic() + SHRINK_BUDGET_S
    for bucket, (case0, msg0) in list(buckets.items())[:MAX_BUCKETS]:
        best = {"case": case0, "msg": msg0}
        if shrink and time.monotonic() < t_end:
            null = ShardResult()

            @hypothesis.seed(seed)
            @_settings(n, [Phase.generate, Phase.shrink])
            @given(strategy)
            def hunt(case):
                if time.monotonic() > t_end:
                    return
                try:
                    body(case, null)
                except Violation as v:
                    if v.bucket == bucket:
                        best["case"], best["msg"] = case, str(v)
                        raise

            try:
                hunt()
            except Violation:
                pass
            except (hypothesis.errors.Flaky, hypothesis.errors.FlakyFailure):
                if time.monotonic() <= t_end:
                    best = {"case": case0, "msg": msg0 + " [not shrunk: flaky under re-execution]"}
            except Exception:  # shrinking is best effort; keep the unshrunk case
                best = {"case": case0, "msg": msg0 + " [not shrunk: %s]" % traceback.format_exc(limit=1)}
        res.add_violation(best["case"], best["msg"], bucket)
    for bucket, (case0, msg0) in list(buckets.items())[MAX_BUCKETS:]:
        res.add_violation(case0, msg0, bucket)
    return res

"""Harness-owned scheduler for overlapping connections (C12) over two transports.

mem : an in-memory duplex object implementing exactly the websocket surface the server uses (recv, send, async-for,
      wait_closed, closure when the handler returns / raises); the loop is run to quiescence after every event.
real: real loopback websockets; quiescence is approximated by generous sleeps.  Used only to confirm a violation found on
      the in-memory transport (a violation that does not reproduce there is a harness error, not a finding).

The only timing source of the server, `asyncio.sleep(1)` inside clean_service_when_close_connection, is replaced by a gate:
every call parks on a future that the schedule's `release` event completes.
"""
import asyncio
import contextlib
import pickle

import websockets


class Gate:
    def __init__(self):
        self.pending = []
        self.released = 0

    async def sleep(self, delay):
        fut = asyncio.get_running_loop().create_future()
        self.pending.append(fut)
        await fut

    def release_at(self, i):
        """several pauses can be pending at once (when the code lets them overlap): any of them may elapse first"""
        live = [f for f in self.pending if not f.done()]
        if i < len(live):
            fut = live[i]
            self.pending.remove(fut)
            fut.set_result(None)
            self.released += 1
            return True
        return False

    def release_one(self):
        while self.pending:
            fut = self.pending.pop(0)
            if not fut.done():
                fut.set_result(None)
                self.released += 1
                return True
        return False


_CLOSE = object()
_ABORT = object()


class MemWS:
    """server-side view of an in-memory connection"""

    def __init__(self, conn):
        self.conn = conn
        self.inbox = asyncio.Queue()
        self.closed = False
        self._closed_fut = asyncio.get_running_loop().create_future()
        self.close_code = None

    # ---- surface used by the server ----
    async def recv(self):
        item = await self.inbox.get()
        if item is _CLOSE:
            self.inbox.put_nowait(_CLOSE)
            raise websockets.ConnectionClosedOK(None, None)
        if item is _ABORT:
            self.inbox.put_nowait(_ABORT)
            raise websockets.ConnectionClosedError(None, None)   # the peer vanished without a closing handshake
        return item

    def __aiter__(self):
        return self

    async def __anext__(self):
        try:
            return await self.recv()
        except websockets.ConnectionClosedOK:
            raise StopAsyncIteration

    async def send(self, data):
        if self.closed:
            raise websockets.ConnectionClosedError(None, None)
        self.conn.deliver(data)

    async def wait_closed(self):
        await asyncio.shield(self._closed_fut)

    async def close(self, code=1000, reason=""):
        if not self.closed and self.conn.server_closed_at is None:
            self.conn.server_closed_at = self.conn.world.now
        self._finish(code)

    # ---- harness side ----
    def _finish(self, code, abnormal=False):
        if not self.closed:
            self.closed = True
            self.close_code = code
            self.inbox.put_nowait(_ABORT if abnormal else _CLOSE)
            if not self._closed_fut.done():
                self._closed_fut.set_result(None)


class Conn:
    """one client connection as the scheduler sees it"""

    def __init__(self, world, index, sid):
        self.world, self.index, self.sid = world, index, sid
        self.messages = []  # (time, decoded dict)
        self.opened_at = None
        self.client_closed_at = None
        self.server_closed_at = None
        self.sent = []

    def deliver(self, raw):
        d = pickle.loads(raw)
        if isinstance(d.get("content"), (bytes, bytearray)) and d.get("type") in ("init", "config", "upload_edb"):
            with contextlib.suppress(Exception):
                d["decoded"] = pickle.loads(d["content"])
        self.messages.append((self.world.now, d))

    @property
    def closed_at(self):
        ts = [t for t in (self.client_closed_at, self.server_closed_at) if t is not None]
        return min(ts) if ts else None


class MemConn(Conn):
    async def open(self):
        self.ws = MemWS(self)
        self.opened_at = self.world.now
        self.ws.inbox.put_nowait(pickle.dumps({"type": "init", "sid": self.sid}))
        handler = self.world.handler

        async def run():
            try:
                await handler(self.ws, "/")
            except Exception:
                if self.server_closed_at is None and not self.ws.closed:
                    self.server_closed_at = self.world.now
                self.ws._finish(1011)
            else:
                if self.server_closed_at is None and not self.ws.closed:
                    self.server_closed_at = self.world.now
                self.ws._finish(1000)
        self.task = asyncio.ensure_future(run())

    async def send(self, msg_type, content, **extra):
        if self.ws.closed:
            return False
        d = {"type": msg_type, "sid": self.sid, "content": content}
        d.update(extra)
        self.ws.inbox.put_nowait(pickle.dumps(d))
        return True

    async def close(self):
        if not self.ws.closed:
            self.client_closed_at = self.world.now
            self.ws._finish(1000)

    async def abort(self):
        """the client disappears without a closing handshake (process killed, network gone)"""
        if not self.ws.closed:
            self.client_closed_at = self.world.now
            self.ws._finish(1006, abnormal=True)

    async def finish(self):
        if not self.ws.closed:  # a case that ended early (violation) leaves connections open: close them like a client would
            self.ws._finish(1000)
        with contextlib.suppress(BaseException):
            await asyncio.wait_for(self.task, 2)


class RealConn(Conn):
    async def open(self):
        self.opened_at = self.world.now
        self.ws = await websockets.connect(self.world.uri, max_size=None)
        await self.ws.send(pickle.dumps({"type": "init", "sid": self.sid}))

        async def reader():
            try:
                async for raw in self.ws:
                    self.deliver(raw)
            except websockets.ConnectionClosed:
                pass
            if self.client_closed_at is None and self.server_closed_at is None:
                self.server_closed_at = self.world.now
        self.task = asyncio.ensure_future(reader())

    async def send(self, msg_type, content, **extra):
        if self.ws.closed:
            return False
        d = {"type": msg_type, "sid": self.sid, "content": content}
        d.update(extra)
        with contextlib.suppress(websockets.ConnectionClosed):
            await self.ws.send(pickle.dumps(d))
        return True

    async def close(self):
        if not self.ws.closed:
            self.client_closed_at = self.world.now
            await self.ws.close()

    async def abort(self):
        if not self.ws.closed:
            self.client_closed_at = self.world.now
            with contextlib.suppress(Exception):
                self.ws.transport.abort()

    async def finish(self):
        with contextlib.suppress(BaseException):
            await self.ws.close()
        with contextlib.suppress(BaseException):
            await asyncio.wait_for(self.task, 2)


class World:
    """owns the clock (event index), the gate and the transport"""

    def __init__(self, transport):
        self.transport = transport
        self.now = 0
        self.gate = Gate()
        from vlib import rig
        self.timers = rig.Timers()
        self.conns = []
        self.server = None
        self.uri = None
        self.handler = None

    async def start(self):
        from vlib import rig
        ns = rig.modules()
        rig.wipe()
        rig.set_sleep(self.gate.sleep, self.timers)
        self.handler = ns.connector.handler
        if self.transport == "real":
            self.server = await rig.Server().start()
            self.uri = self.server.uri

    async def stop(self):
        from vlib import rig
        # from now on nothing may stay parked: release every cleanup delay as soon as it is requested
        stopping = {"done": False}

        async def auto_release():
            while not stopping["done"]:
                self.gate.release_one()
                await asyncio.sleep(0.002 if self.transport == "mem" else 0.01)
        releaser = asyncio.ensure_future(auto_release())
        try:
            for c in self.conns:
                await c.finish()
            for _ in range(6):
                await self.quiesce()
            if self.server is not None:
                await asyncio.wait_for(self.server.stop(), 20)
        finally:
            stopping["done"] = True
            with contextlib.suppress(BaseException):
                await releaser
            rig.set_sleep(rig._fast_sleep)

    def new_conn(self, sid):
        c = (MemConn if self.transport == "mem" else RealConn)(self, len(self.conns), sid)
        self.conns.append(c)
        return c

    async def quiesce(self):
        if self.transport == "real":
            await asyncio.sleep(0.12)
            return
        loop = asyncio.get_running_loop()
        for i in range(2000):
            await asyncio.sleep(0)
            ready = getattr(loop, "_ready", None)
            if i >= 8 and (ready is None or len(ready) == 0):
                break

    async def tick(self):
        await self.quiesce()
        self.now += 1

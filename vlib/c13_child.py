"""Child processes of the crash-point check (C13): a client 'CLI session' or a server, with the fault injector installed.

usage: c13_child.py client <spec.json>   |   c13_child.py server <spec.json>
Everything is driven by the JSON spec; results go to spec['out'] (one JSON object per line, flushed immediately).
"""
import asyncio
import json
import os
import sys

sys.dont_write_bytecode = True
HERE = os.path.dirname(os.path.dirname(os.path.abspath(__file__)))
sys.path.insert(0, HERE)

def become_ordinary_user():
    """root may open any file for writing whatever its permission bits say; the users who run a client or a server may not.  When
    this child runs as root it gives up CAP_DAC_OVERRIDE / CAP_DAC_READ_SEARCH (everything else stays), so permission bits are
    enforced for it as for an ordinary owner of the files."""
    if os.geteuid() != 0:
        return
    try:
        import ctypes

        class Header(ctypes.Structure):
            _fields_ = [("version", ctypes.c_uint32), ("pid", ctypes.c_int)]

        class Data(ctypes.Structure):
            _fields_ = [("effective", ctypes.c_uint32), ("permitted", ctypes.c_uint32), ("inheritable", ctypes.c_uint32)]
        libc = ctypes.CDLL(None, use_errno=True)
        header = Header(0x20080522, 0)  # _LINUX_CAPABILITY_VERSION_3
        data = (Data * 2)()
        if libc.capget(ctypes.byref(header), data) != 0:
            return
        keep = ~((1 << 1) | (1 << 2)) & 0xFFFFFFFF  # CAP_DAC_OVERRIDE = 1, CAP_DAC_READ_SEARCH = 2
        data[0].effective &= keep
        data[0].permitted &= keep
        data[0].inheritable &= keep
        libc.capset(ctypes.byref(header), data)
    except Exception:
        pass


become_ordinary_user()
spec = json.load(open(sys.argv[2]))
os.environ["HOME"] = spec["home"]
os.environ["VERIF_REPO"] = spec.get("repo", "/repo")
from vlib import runner  # noqa

runner.REPO_DIR = spec.get("repo", "/repo")
runner.setup_environment()
from vlib import faultfs  # noqa

os.makedirs(os.path.join(spec["home"], ".sse"), exist_ok=True)
INJ = faultfs.install(os.path.join(spec["home"], ".sse"), spec["log"])
from vlib import rig  # noqa

rig._STATE["home"] = spec["home"]
from vlib.drbg import entropy  # noqa

_OUT = faultfs._REAL["open"](spec["out"], "a", buffering=1)


def emit(obj):
    _OUT.write(json.dumps(obj) + "\n")
    _OUT.flush()


def B(h):
    return bytes.fromhex(h)


# ---------------------------------------------------------------------------------------------------------
# client
# ---------------------------------------------------------------------------------------------------------
async def client_main():
    ns = rig.modules()
    ns.global_config.ClientConfig.SERVER_URI = spec["uri"]
    Service = ns.client_service.Service
    from vlib import schemes as S
    sid = spec.get("sid")
    cfg = spec["cfg"]
    db = {B(k): [B(x) for x in v] for k, v in spec["db"]}
    crash = spec.get("crash")

    async def run_op(name, arg=None):
        nonlocal sid
        if name == "create":
            sid = Service().handle_create_config(json.loads(json.dumps(cfg)))
            return {"sid": sid}
        svc = Service(sid)
        try:
            if name == "genkey":
                svc.handle_create_key()
            elif name == "encrypt":
                svc.handle_encrypt_database({k: list(v) for k, v in db.items()})
            elif name == "upload_config":
                await svc.handle_upload_config(wait=True, wait_callback_func=lambda f: None)
            elif name == "upload_edb":
                await svc.handle_upload_encrypted_database(wait=True, wait_callback_func=lambda f: None)
            elif name == "search":
                got = []
                await svc.handle_keyword_search(B(arg), wait=True, wait_callback_func=lambda f: got.append(f.result()))
                res = svc.sse_module_loader.SSEResult.deserialize(got[0], svc.config_object).get_result_list()
                return {"result": sorted(x.hex() for x in res) if isinstance(res, set) else [x.hex() for x in res], "is_set": isinstance(res, set)}
            else:
                raise ValueError(name)
        finally:
            if name in ("upload_config", "upload_edb", "search"):
                try:
                    await svc.close_service()
                except Exception:
                    pass
        return {}

    async def guarded(i, name, arg=None):
        INJ.scope = "%d:%s" % (i, name)
        INJ.armed = bool(spec.get("log_all")) or bool(crash and crash.get("cmd") == i) or bool(spec.get("arm_cmd") == i)
        INJ.counter = 0
        if crash and crash.get("cmd") == i:
            INJ.crash_at, INJ.crash_mode = crash["at"], crash.get("mode", "before")
        else:
            INJ.crash_at = None
        try:
            r = await asyncio.wait_for(run_op(name, arg), 40)
            emit(dict({"cmd": i, "name": name, "status": "ok", "sid": sid}, **r))
            return True, ""
        except Exception as e:
            emit({"cmd": i, "name": name, "status": "raised", "exc": type(e).__name__, "msg": str(e)[:300], "sid": sid})
            return False, "%s: %s" % (type(e).__name__, e)
        finally:
            INJ.armed = False

    i = 0
    for cmd in spec["cmds"]:
        name = cmd[0]
        if name == "complete":
            # what a user would do after an interruption: (re)create if no sid was ever returned, then run every remaining step;
            # a step refused as 'already ...' counts as done, any other failure means the workflow is stuck
            stuck = None
            if sid is None:
                ok, msg = await guarded(i, "create")
                i += 1
                if not ok:
                    stuck = "create: " + msg
            if stuck is None:
                for step in ("genkey", "encrypt", "upload_config", "upload_edb"):
                    ok, msg = await guarded(i, step)
                    i += 1
                    if not ok and "already" not in msg:
                        stuck = "%s: %s" % (step, msg)
                        break
            if stuck is None:
                for w in spec["queries"]:
                    ok, msg = await guarded(i, "search", w)
                    i += 1
                    if not ok:
                        stuck = "search: " + msg
                        break
            emit({"name": "complete", "status": "ok" if stuck is None else "stuck", "why": stuck, "sid": sid})
        else:
            await guarded(i, name, cmd[1] if len(cmd) > 1 else None)
            i += 1
    emit({"name": "session_end"})


# ---------------------------------------------------------------------------------------------------------
# server
# ---------------------------------------------------------------------------------------------------------
async def server_main():
    import websockets
    ns = rig.modules()
    crash = spec.get("crash")
    arm = spec.get("arm")  # name of the Service method whose mutations are numbered
    Service = ns.server_service.Service
    if arm:
        orig = getattr(Service, arm)
        state = {"calls": 0}

        def wrapper(self, *a, **kw):
            state["calls"] += 1
            on = state["calls"] == spec.get("arm_call", 1)
            if on:
                INJ.scope = arm
                INJ.armed = True
                INJ.counter = 0
                if crash:
                    INJ.crash_at, INJ.crash_mode = crash["at"], crash.get("mode", "before")
            try:
                return orig(self, *a, **kw)
            finally:
                if on:
                    INJ.armed = False
        setattr(Service, arm, wrapper)
        # handlers are looked up through the dict built in __init__, which binds the (wrapped) methods at construction time
    server = await websockets.serve(ns.connector.handler, "127.0.0.1", 0, max_size=None)
    port = server.sockets[0].getsockname()[1]
    with faultfs._REAL["open"](spec["port_file"] + ".tmp", "w") as f:
        f.write(str(port))
    faultfs._REAL["replace"](spec["port_file"] + ".tmp", spec["port_file"])
    emit({"name": "server_started", "port": port})
    await asyncio.Future()


if __name__ == "__main__":
    if sys.argv[1] == "client":
        with entropy(spec.get("seed", 1)):
            asyncio.run(client_main())
    else:
        asyncio.run(server_main())

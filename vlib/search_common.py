"""Shared execution of Setup/Token/Search for C01, C02 (and reused by C03, C07, C08)."""
import traceback

from vlib import schemes as S
from vlib.drbg import entropy
from vlib.runner import Violation


def innermost_repo_frame(exc):
    tb = traceback.extract_tb(exc.__traceback__)
    for fr in reversed(tb):
        if "/verif/" not in fr.filename and ("schemes/" in fr.filename or "toolkit/" in fr.filename
                                             or "frontend/" in fr.filename or "data_persistence/" in fr.filename):
            return "%s:%s" % (fr.filename.split("/repo/")[-1], fr.name)
    return "?"


def stage_violation(scheme, stage, e, extra=""):
    where = innermost_repo_frame(e)
    return Violation("%s: %s raised %s: %s [%s]%s" % (scheme, stage, type(e).__name__, e, where, extra),
                     "%s:%s:%s:%s" % (scheme, stage, type(e).__name__, where))


class Built:
    """scheme instance + key + index for one case (built under the case's entropy seed)"""

    def __init__(self, case):
        self.case = case
        self.desc, self.loader, self.cfg, self.db = S.prepare(case)
        self.scheme_name = case["scheme"]
        try:
            self.scheme = self.loader.SSEScheme(self.cfg)
        except Exception as e:
            raise stage_violation(self.scheme_name, "SSEScheme(cfg)", e)
        try:
            if case.get("key_pattern"):
                from vlib.drbg import patterned
                with patterned(case["key_pattern"]):
                    self.key = self.scheme.KeyGen()
            else:
                self.key = self.scheme.KeyGen()
        except Exception as e:
            raise stage_violation(self.scheme_name, "KeyGen", e)
        try:
            self.edb = self.scheme.EDBSetup(self.key, self.db)
        except Exception as e:
            raise stage_violation(self.scheme_name, "EDBSetup", e)

    def search(self, w):
        try:
            tk = self.scheme.TokenGen(self.key, w)
        except Exception as e:
            raise stage_violation(self.scheme_name, "TokenGen", e)
        try:
            res = self.scheme.Search(self.edb, tk)
        except Exception as e:
            raise stage_violation(self.scheme_name, "Search(present)" if w in self.db else "Search(absent)", e)
        return res.get_result_list()


def check_present(built, w):
    got = built.search(w)
    desc, db = built.desc, built.db
    if not S.result_matches(desc, got, db, w):
        want = S.expected(desc, db, w)
        kind = "type" if type(got) is not type(want) else (
            "missing" if len(got) < len(want) else "extra" if len(got) > len(want) else "altered_or_reordered")
        raise Violation("%s: Search(%r) returned %d ids (%s), expected %d: got %r..., want %r..." % (
            built.scheme_name, w, len(got), kind, len(want), list(got)[:3], list(want)[:3]),
            "%s:wrong_result:%s" % (built.scheme_name, kind))


def check_batch(built, kws):
    """a batch of queries: all tokens are generated first, then searched in another order, and the first token is used a
    second time at the end (a token is a value: it must not change when other tokens are made or when it is used)"""
    toks = []
    for w in kws:
        try:
            toks.append((w, built.scheme.TokenGen(built.key, w)))
        except Exception as e:
            raise stage_violation(built.scheme_name, "TokenGen", e)
    order = list(reversed(toks)) + toks[:1]
    for n, (w, tk) in enumerate(order):
        try:
            got = built.scheme.Search(built.edb, tk).get_result_list()
        except Exception as e:
            raise stage_violation(built.scheme_name, "Search(batch)", e)
        if not S.result_matches(built.desc, got, built.db, w):
            raise Violation("%s: with %d tokens generated up front, Search(token of %r)%s returned %d ids, expected %d" % (
                built.scheme_name, len(toks), w, " (token used a second time)" if n == len(order) - 1 and len(toks) > 1 else "",
                len(got), len(S.expected(built.desc, built.db, w))), "%s:wrong_result:batch" % built.scheme_name)


def check_absent(built, w, tag=""):
    got = built.search(w)
    want_type = set if built.desc.result_is_set else list
    if type(got) is not want_type or len(got) != 0:
        raise Violation("%s: Search(absent %r, %s) returned %r" % (built.scheme_name, w, tag, got),
                        "%s:absent_nonempty" % built.scheme_name)
